----------------------------- MODULE IStreamMC -----------------------------
(***************************************************************************)
(* The interruptible stream on its own, over an ARBITRARY inner stream: at  *)
(* every poll the environment decides whether the inner stream is pending,  *)
(* has an item, or has ended; the signal may be sent at any time (or be     *)
(* pending from the start).  Checks the C08 bounds of Props for every       *)
(* strategy and k <= MaxK -- independently of fn_graph's scheduler, so that  *)
(* the bounds are known to come from the dependency as transcribed and not  *)
(* from a coincidence of the ready queue.                                   *)
(***************************************************************************)
EXTENDS Props, IStream, TLC

CONSTANTS MaxK, MaxItems

VARIABLES strategy, k, preSig, is, chan, sent, items, afterSig, lastOut, ended,
          acts, pits      \* how often fn_interrupt_activate / fn_interrupt_poll_item have been called

vars == <<strategy, k, preSig, is, chan, sent, items, afterSig, lastOut, ended, acts, pits>>

Init ==
  /\ strategy \in {"non", "ignore", "finish", "poll_n"}
  /\ k \in 0..MaxK
  /\ preSig \in BOOLEAN
  /\ is = IS0
  /\ chan = (preSig /\ HasChannel(strategy)) /\ sent = FALSE
  /\ items = 0 /\ afterSig = 0 /\ lastOut = "none" /\ ended = FALSE /\ acts = 0 /\ pits = 0

Poll(inner) ==
  /\ ~ended /\ items < MaxItems
  /\ LET r == PollIS(strategy, k, is, inner, chan) IN
     /\ is' = r.is
     /\ chan' = (chan /\ ~r.recv)
     /\ lastOut' = r.out
     /\ ended' = (r.out = "end")
     /\ items' = IF r.out \in {"item", "int_item"} THEN items + 1 ELSE items
     /\ afterSig' = IF r.out \in {"item", "int_item"} /\ sent THEN afterSig + 1 ELSE afterSig
     /\ acts' = IF r.act THEN acts + 1 ELSE acts
     /\ pits' = IF r.pit THEN pits + 1 ELSE pits
  /\ UNCHANGED <<strategy, k, preSig, sent>>

Signal ==
  /\ HasChannel(strategy) /\ ~sent /\ ~preSig
  /\ sent' = TRUE /\ chan' = TRUE
  /\ UNCHANGED <<strategy, k, preSig, is, items, afterSig, lastOut, ended, acts, pits>>

Next == Signal \/ \E inner \in {"pending", "item", "end"} : Poll(inner)
Spec == Init /\ [][Next]_vars

Ob == [ n |-> MaxItems, api |-> "stream_int", control |-> FALSE, order |-> "fwd", limit |-> 0, strategy |-> strategy, k |-> k,
        include |-> TRUE, preSig |-> preSig /\ HasChannel(strategy), started |-> [i \in 1..items |-> i], ended |-> {},
        failed |-> {}, sig |-> sent, afterSig |-> afterSig, aborted |-> FALSE ]

Inv_C08 == C08_AfterSignal(Ob) /\ C08_PreSignal(Ob)
(* after an Interrupted item the stream ends *)
Inv_EndsAfterInterrupt == is.ntf => lastOut \in {"int_item", "int_none", "end"}
(* non-interrupting strategies never produce an Interrupted item *)
Inv_Transparent == strategy \in {"non", "ignore"} => lastOut \notin {"int_item", "int_none"}
(* the two callbacks: activate at most once and only for an interrupting strategy; poll_item exactly once, *)
(* in the poll that returns the Interrupted item, and never before activate                                *)
Inv_Callbacks ==
  /\ acts <= 1 /\ pits <= 1 /\ pits <= acts
  /\ (acts = 1 => strategy \in {"finish", "poll_n"})
  /\ (pits = 1 <=> is.ntf)

(* an Interrupted(Some) item is only possible for FinishCurrent / PollNextN(0) *)
Inv_IntItemOnlyFinish == lastOut = "int_item" => strategy = "finish" \/ (strategy = "poll_n" /\ k = 0)
=============================================================================
