------------------------------ MODULE TraceRun ------------------------------
(***************************************************************************)
(* Implementation -> design model, for the join-based calls: the events     *)
(* emitted by fn_graph itself under the `verif_hooks` feature (queuer       *)
(* receive, ready receive, stream item, done send, sender drops) together   *)
(* with the harness' observations (start / end of user futures, signal,     *)
(* return value) must be a behaviour of Run.tla:                             *)
(*                                                                          *)
(*   hook `setup`                      -> initial state (counts, preload)   *)
(*   hook `item{f,interrupted}` (+ `start`) -> SPull   (same item, same flag) *)
(*   `end{f,ok}` (+ hook `done_send`)  -> SFinishCore(f, ok)                *)
(*   hook `q_recv{f,released,ready_open}` -> QRecv    (same id, same release) *)
(*   `signal`                          -> EnvSignal                         *)
(*   `return{...}`                     -> Return      (same outcome)        *)
(*   nothing logged                    -> QEnd, SEnd, SPull returning       *)
(*                                        Pending / end  (silent steps)      *)
(*                                                                          *)
(* Unlogged choices are left to TLC (depth-first).  One file = many          *)
(* scenarios of ONE option set (the constants).  A scenario that stops      *)
(* matching is marked drifted and skipped; a drift is a statement about the *)
(* binding of this model to the code, never a verdict about a property.     *)
(***************************************************************************)
EXTENDS Run, IOUtils

CONSTANT ItemHook   \* TRUE: the trace comes from fn_graph built with `interruptible`, whose item futures emit the hook `item`;
                    \* FALSE: built with its default features (other closures, no InterruptibleStream, no `item` hook):
                    \* the hand-over to the user closure is recognised by the harness' own `start` event alone

Rec == ndJsonDeserialize(IOEnv.TRACE)

VARIABLES l, okf, scn, live

tvars == <<vars, l, okf, scn, live>>

Has(i) == i <= Len(Rec)
IsEv(e) == Has(l) /\ "hook" \notin DOMAIN Rec[l] /\ Rec[l].ev = e
IsHook(e) == Has(l) /\ "hook" \in DOMAIN Rec[l] /\ Rec[l].ev = e
Step == l' = l + 1
Frozen == UNCHANGED vars
Keep == UNCHANGED <<okf, scn, live>>

Out0 == [state |-> "", processed |-> <<>>, notProcessed |-> <<>>, kind |-> ""]

TInit ==
  /\ l = 1 /\ okf = TRUE /\ scn = "" /\ live = FALSE
  /\ n = 0 /\ E = {} /\ C = <<>> /\ cnt = <<>> /\ readyQ = <<>> /\ readyTx = FALSE /\ doneQ = <<>> /\ doneTx = FALSE
  /\ qRem = 0 /\ qDone = FALSE /\ sRem = 0 /\ processed = <<>> /\ is = IS0 /\ intRun = 0 /\ pulled = <<>>
  /\ pullsAfterSig = 0
  /\ running = {} /\ open = <<>> /\ started = <<>> /\ ended = {} /\ failed = {} /\ errors = <<>>
  /\ sigChan = FALSE /\ sigSent = FALSE /\ afterSig = 0
  /\ sEnded = FALSE /\ sDone = FALSE /\ foldErr = 0 /\ returned = FALSE /\ outcome = Out0 /\ panicked = FALSE
  /\ hist = <<>>

Verdict == PrintT("TI " \o scn \o (IF okf THEN " ok" ELSE " drift"))

TReset ==
  /\ IsEv("reset")
  /\ (scn # "" => Verdict)
  /\ scn' = Rec[l].scn /\ okf' = TRUE /\ live' = FALSE /\ Step
  /\ n' = Rec[l].n
  /\ UNCHANGED <<E, C, cnt, readyQ, readyTx, doneQ, doneTx, qRem, qDone, sRem, processed, is, intRun, pulled, running, open,
                 started, ended, failed, errors, sigChan, sigSent, afterSig, pullsAfterSig, sEnded, sDone, foldErr, returned,
                 outcome, panicked, hist>>

TBuild ==
  /\ IsEv("build") /\ okf
  /\ LET S == { <<Rec[l].edges[i][1], Rec[l].edges[i][2]>> : i \in DOMAIN Rec[l].edges } IN
     E' = S /\ C' = ReachAny(n, S)
  /\ Step /\ Keep
  /\ UNCHANGED <<n, cnt, readyQ, readyTx, doneQ, doneTx, qRem, qDone, sRem, processed, is, intRun, pulled, running, open,
                 started, ended, failed, errors, sigChan, sigSent, afterSig, pullsAfterSig, sEnded, sDone, foldErr, returned,
                 outcome, panicked, hist>>

TCall ==
  /\ IsEv("call") /\ okf /\ ~live
  /\ Has(l + 1) /\ Rec[l+1].ev = "setup"
  /\ LET su == Rec[l+1]
         c0 == [f \in 1..n |-> IF Order = "fwd" THEN Cardinality(Preds(E, f)) ELSE Cardinality(Succs(E, f))]
     IN
     /\ su.counts = c0 /\ su.order = Order
     /\ Range(su.preload) = { f \in 1..n : c0[f] = 0 } /\ Len(su.preload) = Cardinality(Range(su.preload))
     /\ cnt' = c0 /\ readyQ' = su.preload
  /\ readyTx' = (n > 0) /\ doneQ' = <<>> /\ doneTx' = (n > 0)
  /\ qRem' = n /\ qDone' = FALSE /\ sRem' = n /\ processed' = <<>> /\ is' = IS0 /\ intRun' = 0 /\ pulled' = <<>>
  /\ pullsAfterSig' = 0
  /\ running' = {} /\ open' = <<>> /\ started' = <<>> /\ ended' = {} /\ failed' = {} /\ errors' = <<>>
  /\ sigChan' = (PreSig /\ HasChannel(Strategy)) /\ sigSent' = FALSE /\ afterSig' = 0
  /\ sEnded' = FALSE /\ sDone' = FALSE /\ foldErr' = 0 /\ returned' = FALSE /\ outcome' = Out0 /\ panicked' = FALSE
  /\ hist' = <<>>
  /\ live' = TRUE /\ l' = l + 2
  /\ UNCHANGED <<n, E, C, okf, scn>>

(* fold bodies: the item is handed to the fold closure in the same step (hook `item`, then `start`) *)
TPullFold ==
  /\ ItemHook /\ IsFoldApi /\ IsHook("item") /\ okf /\ live
  /\ SPull
  /\ LET e == Rec[l] IN
     IF e.f # 0
     THEN /\ Len(started') = Len(started) + 1 /\ started'[Len(started')] = e.f
          /\ (e.interrupted <=> intRun' = e.f)
          /\ Has(l + 1) /\ Rec[l+1].ev = "start" /\ Rec[l+1].f = e.f
          /\ l' = l + 2
     ELSE /\ started' = started /\ e.interrupted
          /\ sEnded' = FALSE /\ is'.ntf /\ ~is.ntf
          /\ l' = l + 1
  /\ Keep

(* for_each bodies: the ready stream hands a function over (hook `ready_recv`); the item future is pushed *)
TPull ==
  /\ ~IsFoldApi /\ IsHook("ready_recv") /\ okf /\ live
  /\ SPull
  /\ Len(pulled') = Len(pulled) + 1 /\ pulled'[Len(pulled')].f = Rec[l].f
  /\ Step /\ Keep

(* ... and its first poll: hook `item`, then the harness' `start` *)
TStart ==
  /\ ItemHook /\ ~IsFoldApi /\ IsHook("item") /\ okf /\ live
  /\ SStart
  /\ LET e == Rec[l]  it == Head(pulled) IN
     /\ it.f = e.f /\ it.int = e.interrupted
     /\ IF e.f # 0
        THEN Has(l + 1) /\ Rec[l+1].ev = "start" /\ Rec[l+1].f = e.f /\ l' = l + 2
        ELSE l' = l + 1
  /\ Keep

(* the same two steps for the default-feature build: no `item` hook, nothing is ever interrupted *)
TPullFoldP ==
  /\ ~ItemHook /\ IsFoldApi /\ IsEv("start") /\ okf /\ live
  /\ SPull
  /\ Len(started') = Len(started) + 1 /\ started'[Len(started')] = Rec[l].f
  /\ intRun' = intRun
  /\ Step /\ Keep

TStartP ==
  /\ ~ItemHook /\ ~IsFoldApi /\ IsEv("start") /\ okf /\ live
  /\ SStart
  /\ Head(pulled).f = Rec[l].f /\ ~Head(pulled).int
  /\ Step /\ Keep

TFinish ==
  /\ IsEv("end") /\ okf /\ live
  /\ LET f == Rec[l].f  ok == Rec[l].ok
         \* the function sent the interrupt itself: the harness logged `signal{inside: f}` just before `end`
         sig == l > 1 /\ Rec[l-1].ev = "signal" /\ "inside" \in DOMAIN Rec[l-1] /\ Rec[l-1].inside = f
         sends == ok /\ doneTx                               \* fn_done_send is reached with a sender
         nxt == Has(l + 1) /\ Rec[l+1].ev = "done_send"
     IN /\ SFinishCore(f, ok, sig)
        /\ open' = open
        /\ (sends <=> nxt)
        /\ (nxt => Rec[l+1].f = f /\ Rec[l+1].sent)
  /\ Step /\ Keep

TQRecv ==
  /\ IsHook("q_recv") /\ okf /\ live
  /\ QRecv
  /\ LET e == Rec[l] IN
     /\ Head(doneQ) = e.f
     /\ readyTx' = e.ready_open
     /\ readyQ' = TrySendAll(readyQ, e.released)
     /\ (~e.ready_open => e.released = <<>>)
  /\ Step /\ Keep

TSignal ==
  /\ IsEv("signal") /\ okf /\ live /\ "inside" \notin DOMAIN Rec[l]      \* (an inside signal belongs to the next `end`)
  /\ EnvSignal
  /\ Step /\ Keep

TSignalInside ==
  /\ IsEv("signal") /\ okf /\ live /\ "inside" \in DOMAIN Rec[l]
  /\ Step /\ Frozen /\ Keep

KindOf(k) == IF k = "outcome" THEN "outcome" ELSE k

TReturn ==
  /\ IsEv("return") /\ okf /\ live
  /\ Return
  /\ LET e == Rec[l] IN
     /\ outcome'.kind = e.kind
     /\ (e.kind # "fold_err" =>
           /\ outcome'.state = e.state
           /\ outcome'.processed = e.processed
           /\ outcome'.notProcessed = e.not_processed
           /\ errors = e.errors)
     /\ (e.kind = "fold_err" => foldErr = e.err)
  /\ live' = FALSE
  /\ Step /\ UNCHANGED <<okf, scn>>

(* the caller dropped the call future: nothing more of this run is modelled *)
TAbort ==
  /\ IsEv("abort") /\ okf /\ live
  /\ live' = FALSE /\ Step /\ Frozen /\ UNCHANGED <<okf, scn>>

(* steps of the code that log nothing *)
Silent ==
  /\ okf /\ live /\ Has(l)
  /\ \/ QEnd
     \/ SEnd
     \/ (SPull /\ started' = started /\ pulled' = pulled /\ (sEnded' \/ is'.ntf = is.ntf))   \* ready stream polled: Pending or end
     \* for_each, include = FALSE: an Interrupted(Some f) item is filtered before any hook fires
     \/ (~IsFoldApi /\ SPull /\ Len(pulled') = Len(pulled) + 1 /\ pulled'[Len(pulled')].f = 0)
  /\ UNCHANGED <<l, okf, scn, live>>

Matched == {"reset", "build", "call", "end", "signal", "return", "abort"} \cup (IF ItemHook THEN {} ELSE {"start"})
MatchedHooks == (IF IsFoldApi THEN {"item", "q_recv"} ELSE {"item", "q_recv", "ready_recv"})
                \ (IF ItemHook THEN {} ELSE {"item"})

TSkip ==
  /\ Has(l)
  /\ \/ ("hook" \in DOMAIN Rec[l] /\ Rec[l].ev \notin MatchedHooks)
     \/ ("hook" \notin DOMAIN Rec[l] /\ Rec[l].ev \notin Matched)
     \/ (~okf /\ Rec[l].ev # "reset")
     \/ (okf /\ ~live /\ Rec[l].ev \notin {"reset", "build", "call"})   \* after return / abort: teardown noise
  /\ Step /\ Frozen /\ Keep

TDrift ==
  /\ Has(l) /\ okf
  /\ okf' = FALSE
  /\ PrintT("TI-AT " \o scn \o " " \o ToString(l))
  /\ Step /\ Frozen /\ UNCHANGED <<scn, live>>

TEnd == l = Len(Rec) + 1 /\ scn # "" /\ Verdict /\ l' = l + 1 /\ Frozen /\ Keep

TNext == TReset \/ TBuild \/ TCall \/ TPullFold \/ TPull \/ TStart \/ TPullFoldP \/ TStartP \/ TFinish \/ TQRecv \/ TSignal \/ TSignalInside
         \/ TReturn \/ TAbort \/ Silent \/ TSkip \/ TEnd
TNextD == TNext \/ (~ENABLED TNext /\ TDrift)

TSpec == TInit /\ [][TNextD]_tvars

=============================================================================
