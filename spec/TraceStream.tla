---------------------------- MODULE TraceStream ----------------------------
(***************************************************************************)
(* Implementation -> design model, for stream*(): every recorded consumer   *)
(* step of the real stream (poll_next, FnRef drop, stream drop, signal)      *)
(* must be the corresponding action of StreamApi, with the SAME result:      *)
(* what the poll returned, which function it yielded, and -- the point of    *)
(* transcribing the waker registrations -- whether the consumer's waker flag *)
(* is set afterwards.  The model is deterministic once the graph, the        *)
(* preload order (hook event `setup`) and the consumer's steps are given,    *)
(* so validation is linear.                                                  *)
(*                                                                          *)
(* One trace file holds many scenarios of ONE option set (the constants).   *)
(* A scenario whose events stop matching is marked drifted (`okf` = FALSE), *)
(* the rest of it is skipped, and validation continues at the next `reset`: *)
(* one mismatch does not hide the rest of the file.  A drift is never a     *)
(* verdict about a property; it says the code no longer follows this model. *)
(***************************************************************************)
EXTENDS StreamApi, Json, IOUtils

Rec == ndJsonDeserialize(IOEnv.TRACE)

VARIABLES l, okf, scn, live

tvars == <<vars, l, okf, scn, live>>

IsEv(e) == l <= Len(Rec) /\ "hook" \notin DOMAIN Rec[l] /\ Rec[l].ev = e
Step == l' = l + 1

Frozen == UNCHANGED vars

TInit ==
  /\ l = 1 /\ okf = TRUE /\ scn = "" /\ live = FALSE
  /\ n = 0 /\ E = {} /\ C = <<>> /\ es = <<>> /\ cnt = <<>> /\ readyQ = <<>> /\ readyTx = FALSE /\ doneQ = <<>>
  /\ doneTx = FALSE /\ rem = 0 /\ held = {} /\ dropped = {} /\ yielded = <<>>
  /\ wDone = 0 /\ wReady = 0 /\ woken = {} /\ cur = 1 /\ last = "never" /\ streamDropped = FALSE
  /\ is = IS0 /\ sigChan = FALSE /\ sigSent = FALSE /\ afterSig = 0 /\ intSeen = FALSE

Verdict == PrintT("TI " \o scn \o (IF okf THEN " ok" ELSE " drift"))

TReset ==
  /\ IsEv("reset")
  /\ (scn # "" => Verdict)
  /\ scn' = Rec[l].scn /\ okf' = TRUE /\ live' = FALSE /\ Step
  /\ n' = Rec[l].n
  /\ UNCHANGED <<E, C, es, cnt, readyQ, readyTx, doneQ, doneTx, rem, held, dropped, yielded, wDone, wReady, woken, cur, last,
                 streamDropped, is, sigChan, sigSent, afterSig, intSeen>>

TBuild ==
  /\ IsEv("build") /\ okf
  /\ LET sq == [i \in DOMAIN Rec[l].edges |-> <<Rec[l].edges[i][1], Rec[l].edges[i][2]>>] IN
     /\ es' = sq /\ E' = Range(sq) /\ C' = ReachAny(n, Range(sq))
  /\ Step
  /\ UNCHANGED <<n, cnt, readyQ, readyTx, doneQ, doneTx, rem, held, dropped, yielded, wDone, wReady, woken, cur, last,
                 streamDropped, is, sigChan, sigSent, afterSig, intSeen, okf, scn, live>>

(* the call event of a stream run, followed by fn_graph's own `setup` event: counts and preload order *)
TCall ==
  /\ IsEv("call") /\ okf /\ ~live
  /\ l + 1 <= Len(Rec) /\ Rec[l+1].ev = "setup"
  /\ LET su == Rec[l+1]
         c0 == [f \in 1..n |-> IF Order = "fwd" THEN Cardinality(Preds(E, f)) ELSE Cardinality(Succs(E, f))]
     IN
     /\ su.counts = c0                              \* predecessor counts as the model computes them
     /\ su.order = Order
     /\ Range(su.preload) = { f \in 1..n : c0[f] = 0 } /\ Len(su.preload) = Cardinality(Range(su.preload))
     /\ cnt' = c0 /\ readyQ' = su.preload
  /\ readyTx' = (n > 0) /\ doneTx' = (n > 0) /\ doneQ' = <<>> /\ rem' = n
  /\ held' = {} /\ dropped' = {} /\ yielded' = <<>>
  /\ wDone' = 0 /\ wReady' = 0 /\ woken' = {} /\ cur' = 1 /\ last' = "never" /\ streamDropped' = FALSE
  /\ is' = IS0 /\ sigChan' = (PreSig /\ Wrapped /\ HasChannel(Strategy)) /\ sigSent' = FALSE /\ afterSig' = 0
  /\ intSeen' = FALSE
  /\ live' = TRUE /\ l' = l + 2
  /\ UNCHANGED <<n, E, C, es, okf, scn>>

OutOf(e) == IF e.res = "pending" THEN "pending"
            ELSE IF e.res = "none" THEN "end"
            ELSE IF ~e.interrupted THEN "item"
            ELSE IF e.f # 0 THEN "int_item" ELSE "int_none"

TPoll ==
  /\ IsEv("spoll") /\ okf /\ live
  /\ Poll(Rec[l].w + 1)                                      \* the task (waker) that polled
  /\ last' = OutOf(Rec[l])                                   \* the same outcome
  /\ (Rec[l].f # 0 => yielded'[Len(yielded')] = Rec[l].f)    \* the same function
  /\ (cur' \in woken') = Rec[l].woken                        \* the same waker flag of that task afterwards
  /\ Step /\ UNCHANGED <<okf, scn, live>>

TDrop ==
  /\ IsEv("drop_ref") /\ okf /\ live
  /\ DropRef(Rec[l].f)
  /\ (~streamDropped => (cur \in woken') = Rec[l].woken)      \* once the stream is gone its wakers are nobody's business
  /\ Step /\ UNCHANGED <<okf, scn, live>>

TDropStream ==
  /\ IsEv("drop_stream") /\ okf /\ live
  /\ ~streamDropped /\ streamDropped' = TRUE
  /\ UNCHANGED <<n, E, C, es, cnt, readyQ, readyTx, doneQ, doneTx, rem, held, dropped, yielded, wDone, wReady, woken,
                 cur, last, is, sigChan, sigSent, afterSig, intSeen>>
  /\ Step /\ UNCHANGED <<okf, scn, live>>

TSignal ==
  /\ IsEv("signal") /\ okf /\ live
  /\ sigSent' = TRUE /\ sigChan' = Rec[l].sent
  /\ UNCHANGED <<n, E, C, es, cnt, readyQ, readyTx, doneQ, doneTx, rem, held, dropped, yielded, wDone, wReady, woken,
                 cur, last, streamDropped, is, afterSig, intSeen>>
  /\ Step /\ UNCHANGED <<okf, scn, live>>

Matched == {"reset", "build", "call", "spoll", "drop_ref", "drop_stream", "signal"}

(* lines that are not steps of this model (builder calls, fn_graph's internal hook events, ...) *)
TSkip ==
  /\ l <= Len(Rec)
  /\ \/ "hook" \in DOMAIN Rec[l]
     \/ Rec[l].ev \notin Matched
     \/ ~okf /\ Rec[l].ev # "reset"                        \* drifted: skip to the next scenario
  /\ Step /\ Frozen /\ UNCHANGED <<okf, scn, live>>

(* give up on this scenario at this line *)
TDrift ==
  /\ l <= Len(Rec) /\ okf /\ "hook" \notin DOMAIN Rec[l] /\ Rec[l].ev \in Matched \ {"reset"}
  /\ okf' = FALSE
  /\ PrintT("TI-AT " \o scn \o " " \o ToString(l))
  /\ Step /\ Frozen /\ UNCHANGED <<scn, live>>

TEnd == l = Len(Rec) + 1 /\ scn # "" /\ Verdict /\ l' = l + 1 /\ Frozen /\ UNCHANGED <<okf, scn, live>>

TNext == TReset \/ TBuild \/ TCall \/ TPoll \/ TDrop \/ TDropStream \/ TSignal \/ TSkip \/ TEnd
(* the drift step is taken only where no model step matches *)
TNextD == TNext \/ (~ENABLED TNext /\ TDrift)

TSpec == TInit /\ [][TNextD]_tvars

=============================================================================
