--------------------------- MODULE BuilderCalls ---------------------------
(***************************************************************************)
(* FnGraphBuilder::add_logic_edge / add_contains_edge / add_*_edges         *)
(* (src/fn_graph_builder.rs:66-128) over daggy 0.9 update_edge / add_edge:  *)
(* every sequence of at most MaxCalls calls over N functions, including     *)
(* repeats, reversed pairs, self edges, kind changes and the batch forms.   *)
(* The calls are Build!ApplyEdge / ApplyEdges (what the trace monitor uses   *)
(* to judge the code); the invariants state C16 independently of them, over *)
(* the transitive closure of the edges accepted BEFORE the call.            *)
(***************************************************************************)
EXTENDS Props, Build, TLC

CONSTANTS N, MaxCalls, MaxBatch,
          AddInsteadOfUpdate  \* FALSE; deviation: an existing pair gets a second edge

VARIABLES ue, pre, last, ncalls,
          nf      \* functions added so far: add_fn may come between edge calls; edge calls name functions 1..nf
vars == <<ue, pre, last, ncalls, nf>>

UserKinds == {"logic", "contains"}

Init == ue = <<>> /\ pre = <<>> /\ ncalls = 0 /\ last = [op |-> "none"] /\ nf \in 0..N

Apply1(u, a, b, kind) ==
  IF AddInsteadOfUpdate /\ EdgeIndexOf(u, a, b) # 0
  THEN [res |-> "ok", ue |-> Append(u, <<a, b, kind>>)]
  ELSE ApplyEdge(N, u, a, b, kind)

AddEdge(a, b, kind) ==
  /\ ncalls < MaxCalls
  /\ LET r == Apply1(ue, a, b, kind) IN
     /\ ue' = r.ue /\ pre' = ue /\ ncalls' = ncalls + 1 /\ nf' = nf
     /\ last' = [op |-> "edge", a |-> a, b |-> b, kind |-> kind, res |-> r.res]

AddEdges(pairs, kind) ==
  /\ ncalls < MaxCalls
  /\ LET r == ApplyEdges(N, ue, pairs, kind) IN
     /\ ue' = r.ue /\ pre' = ue /\ ncalls' = ncalls + 1 /\ nf' = nf
     /\ last' = [op |-> "edges", pairs |-> pairs, kind |-> kind, res |-> r.res]

(* add_fn between edge calls: the new function gets the next id; the accepted edges are untouched (Build!ApplyCall) *)
AddFn ==
  /\ nf < N
  /\ nf' = nf + 1 /\ pre' = ue /\ ue' = ApplyCall(N, ue, [op |-> "fn"]).ue /\ last' = [op |-> "fn"] /\ ncalls' = ncalls

Batches == UNION { [1..k -> (1..nf) \X (1..nf)] : k \in 0..MaxBatch }

Next == \/ \E a, b \in 1..nf, kind \in UserKinds : AddEdge(a, b, kind)
        \/ \E p \in Batches, kind \in UserKinds : AddEdges(p, kind)
        \/ AddFn

Spec == Init /\ [][Next]_vars

Pairs(u) == PairsOfSeq(u)

(* the accepted edges always form a DAG with at most one edge per ordered pair *)
Inv_Dag == /\ Acyclic(N, Pairs(ue))
           /\ \A i, j \in DOMAIN ue : i # j => <<ue[i][1], ue[i][2]>> # <<ue[j][1], ue[j][2]>>

(* a single call is rejected exactly when it would close a cycle (self edges included), *)
(* a rejected call leaves the accepted edges intact, an accepted one adds / re-kinds one edge *)
Inv_C16_Edge ==
  last.op = "edge" =>
    LET closes == last.a = last.b \/ last.a \in ReachFrom(N, Pairs(pre), last.b) IN
    /\ C16_Result(last.res, IF closes THEN "cycle" ELSE "ok")
    /\ (last.res = "cycle" => ue = pre)
    /\ (last.res = "ok" =>
          /\ \E i \in DOMAIN ue : ue[i] = <<last.a, last.b, last.kind>>          \* the most recent kind wins
          /\ \A i \in DOMAIN pre : <<pre[i][1], pre[i][2]>> # <<last.a, last.b>> => ue[i] = pre[i]
          /\ Len(ue) = Len(pre) + (IF <<last.a, last.b>> \in Pairs(pre) THEN 0 ELSE 1))

(* a function added between edge calls changes nothing that was accepted *)
Inv_AddFnFrame == last.op = "fn" => ue = pre

(* the incremental descendant map used by the trace monitor agrees with the definition *)
Inv_DescMap ==
  LET F[k \in 0..Len(ue)] == IF k = 0 THEN [x \in 1..N |-> {}]
                             ELSE DescAdd(N, F[k-1], ue[k][1], ue[k][2])
  IN F[Len(ue)] = DescOf(N, ue)

(* batch forms: the accepted prefix stays, everything before the call stays *)
Inv_C16_Batch ==
  last.op = "edges" =>
    /\ \A i \in DOMAIN pre : \E j \in DOMAIN ue : <<ue[j][1], ue[j][2]>> = <<pre[i][1], pre[i][2]>>
    /\ (last.res = "ok" => \A k \in DOMAIN last.pairs : <<last.pairs[k][1], last.pairs[k][2]>> \in Pairs(ue))
    /\ (last.res = "cycle" => \E k \in DOMAIN last.pairs :
            \/ last.pairs[k][1] = last.pairs[k][2]
            \/ last.pairs[k][1] \in ReachFrom(N, Pairs(ue), last.pairs[k][2]))
=============================================================================
