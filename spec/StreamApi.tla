----------------------------- MODULE StreamApi -----------------------------
(***************************************************************************)
(* FnGraph::stream / stream_with / stream_interruptible /                   *)
(* stream_with_interruptible (src/fn_graph.rs:113-261, src/fn_ref.rs).      *)
(*                                                                          *)
(* Here fn_graph hand-writes the poll function, so it is transcribed        *)
(* exactly, including tokio's waker registration on the two channels:       *)
(*   - a poll_recv that finds nothing registers the task's waker on that    *)
(*     channel and returns Pending; one that finds a value registers        *)
(*     nothing;                                                              *)
(*   - a send (or the drop of the last sender) on a channel takes the       *)
(*     registered waker and wakes the task.                                 *)
(* The consumer is arbitrary user code: it polls, drops any FnRef it holds   *)
(* at any time, and may drop the stream early.  FnRef::drop is the           *)
(* done-sender.  The stream may be polled by SEVERAL tasks (1..Tasks), each  *)
(* with its own waker: a channel remembers the waker of the task whose       *)
(* poll_recv found it empty LAST, a send wakes that task, and what C05       *)
(* speaks about is the task that polled last (`cur`).  A task polls when it  *)
(* may (first poll, after an item, after its wake-up) or, with Spurious,     *)
(* at any time -- which is how a second task takes over.  (The liveness      *)
(* configuration keeps Spurious off: polling without a reason would mask a   *)
(* stall there; the stall INVARIANT is evaluated after every Pending poll.)  *)
(***************************************************************************)
EXTENDS Props, IStream, TLC

CONSTANTS
  N, Order,
  Wrapped,        \* TRUE: stream_with_interruptible (InterruptibleStream around the poll function)
  Strategy, K, PreSig,
  DropStreamEarly,\* the consumer may drop the stream before it ended
  Tasks,          \* number of consumer tasks that may poll the stream (1 or 2)
  Spurious,       \* a task may poll although it was neither handed an item nor woken
  \* deliberate deviations
  DrainDone,      \* "all" (code after the fix) | "one" (as found: one done id per poll)
  RegisterDone,   \* "always": a poll_recv that finds the done channel empty registers the waker of the polling task;
                  \* "never"; "stale": only if no waker is registered there yet (a remembered registration, whoever made it)
  EndEarly        \* 0; k > 0: the stream ends when fns_remaining reaches k (off-by-k)

VARIABLES
  n, E, C,
  es,             \* the edges as a sequence: raw_edges() order of the built graph (decides the order
                  \* in which petgraph walks the children of a function: most recently added first)
  cnt, readyQ, readyTx, doneQ, doneTx, rem,
  held, dropped, yielded,
  wDone, wReady,  \* the task whose waker is registered on the done / ready channel (0 = none)
  woken,          \* set of tasks woken since their last poll
  cur,            \* the task that polled last
  last, streamDropped,
  is, sigChan, sigSent, afterSig, intSeen

vars == <<n, E, C, es, cnt, readyQ, readyTx, doneQ, doneTx, rem, held, dropped, yielded,
          wDone, wReady, woken, cur, last, streamDropped, is, sigChan, sigSent, afterSig, intSeen>>

Children(f) == IF Order = "fwd" THEN Succs(E, f) ELSE Preds(E, f)
(* children of f in the order graph_structure.children(f) yields them *)
KidSeq(f) ==
  LET mine(i) == IF Order = "fwd" THEN es[i][1] = f ELSE es[i][2] = f
      kid(i)  == IF Order = "fwd" THEN es[i][2] ELSE es[i][1]
      F[k \in 0..Len(es)] == IF k = 0 THEN <<>>
                             ELSE LET p == F[k-1] IN IF mine(k) THEN <<kid(k)>> \o p ELSE p
  IN F[Len(es)]
SeqOfPairs(S) ==
  LET F[T \in SUBSET S] ==
        IF T = {} THEN <<>>
        ELSE LET m == CHOOSE x \in T : \A y \in T : x[1] < y[1] \/ (x[1] = y[1] /\ x[2] <= y[2])
             IN  <<m>> \o F[T \ {m}]
  IN F[S]
Capacity == Max(1, n)
Perms(S) == { p \in [1..Cardinality(S) -> S] : \A i, j \in DOMAIN p : i # j => p[i] # p[j] }
AllDags(k) == SUBSET { <<a, b>> \in (1..k) \X (1..k) : a < b }

Init ==
  /\ n \in 0..N
  /\ E \in AllDags(n)
  /\ C = Reach(n, E)
  /\ es = SeqOfPairs(E)
  /\ cnt = [f \in 1..n |-> IF Order = "fwd" THEN Cardinality(Preds(E, f)) ELSE Cardinality(Succs(E, f))]
  /\ \E p \in Perms({ f \in 1..n : cnt[f] = 0 }) : readyQ = p
  /\ readyTx = (n > 0) /\ doneTx = (n > 0) /\ doneQ = <<>> /\ rem = n
  /\ held = {} /\ dropped = {} /\ yielded = <<>>
  /\ wDone = 0 /\ wReady = 0 /\ woken = {} /\ cur = 1 /\ last = "never" /\ streamDropped = FALSE
  /\ is = IS0 /\ sigChan = (PreSig /\ Wrapped /\ HasChannel(Strategy)) /\ sigSent = FALSE /\ afterSig = 0
  /\ intSeen = FALSE

(***************************************************************************)
(* The closure given to stream::poll_fn (215-260), as a function of the    *)
(* current state: what it returns and the state it leaves.                  *)
(***************************************************************************)
(* draining the done channel: k ids processed, one after another *)
DrainStep(s) ==      \* s = [cnt, readyQ, doneQ, sent (a try_send succeeded)]
  LET f    == Head(s.doneQ)
      kids == KidSeq(f)
      \* for each child in walk order: decrement, and try_send it when it reaches 0
      F[i \in 0..Len(kids)] ==
        IF i = 0 THEN [cnt |-> s.cnt, q |-> s.readyQ]
        ELSE LET p == F[i-1]  c == kids[i]  v == p.cnt[c] - 1 IN
             [cnt |-> [p.cnt EXCEPT ![c] = v],
              q   |-> IF v = 0 /\ readyTx /\ Len(p.q) < Capacity THEN Append(p.q, c) ELSE p.q]
      r == F[Len(kids)]
  IN [cnt |-> r.cnt, readyQ |-> r.q, doneQ |-> Tail(s.doneQ), sent |-> s.sent \/ r.q # s.readyQ]

Raw(t) ==
  LET s0 == [cnt |-> cnt, readyQ |-> readyQ, doneQ |-> doneQ, sent |-> FALSE]
      k  == IF DrainDone = "all" THEN Len(doneQ) ELSE Min(1, Len(doneQ))
      D[i \in 0..k] == IF i = 0 THEN s0 ELSE DrainStep(D[i-1])
      s1 == D[k]
      doneClosed == ~doneTx /\ held = {}
      \* the last poll_recv on the done channel saw an empty, open channel: Pending, waker registered.
      \* ("one" mode: the only poll_recv saw an empty queue iff it was empty to begin with)
      emptySeen == ~doneClosed /\ (DrainDone = "all" \/ doneQ = <<>>)
      wDone2 == IF RegisterDone = "always" /\ emptySeen THEN t
                ELSE IF RegisterDone = "stale" /\ emptySeen /\ wDone = 0 THEN t
                ELSE wDone
      \* a try_send on the ready channel wakes the task whose waker is registered there
      selfWake == s1.sent /\ wReady # 0
      woke     == IF selfWake THEN {wReady} ELSE {}
      wReady1  == IF selfWake THEN 0 ELSE wReady
  IN
  IF ~doneTx
  THEN [kind |-> "end", f |-> 0, cnt |-> s1.cnt, readyQ |-> s1.readyQ, doneQ |-> s1.doneQ,
        wDone |-> wDone2, wReady |-> wReady1, woke |-> woke, rem |-> rem,
        doneTx |-> doneTx, readyTx |-> readyTx]
  ELSE IF s1.readyQ # <<>>
  THEN LET f == Head(s1.readyQ)  r2 == rem - 1  fin == r2 <= EndEarly IN
       [kind |-> "item", f |-> f, cnt |-> s1.cnt, readyQ |-> Tail(s1.readyQ), doneQ |-> s1.doneQ,
        wDone |-> wDone2, wReady |-> wReady1, woke |-> woke, rem |-> r2,
        doneTx |-> ~fin, readyTx |-> readyTx /\ ~fin]
  ELSE [kind |-> "pending", f |-> 0, cnt |-> s1.cnt, readyQ |-> s1.readyQ, doneQ |-> s1.doneQ,
        wDone |-> wDone2, wReady |-> t, woke |-> woke, rem |-> rem,
        doneTx |-> doneTx, readyTx |-> readyTx]

MayPoll(t) == /\ ~streamDropped /\ last # "end"
              /\ \/ Spurious
                 \/ t = cur /\ last \in {"never", "item", "int_item", "int_none"}
                 \/ t \in woken

Poll(t) ==
  /\ MayPoll(t)
  /\ cur' = t
  /\ LET raw == Raw(t)
         r   == IF Wrapped THEN PollIS(Strategy, K, is, raw.kind, sigChan)
                ELSE [is |-> is, out |-> raw.kind, polled |-> TRUE, recv |-> FALSE, act |-> FALSE, pit |-> FALSE]
     IN
     /\ is' = r.is
     /\ sigChan' = (sigChan /\ ~r.recv)
     /\ last' = r.out
     /\ IF r.polled
        THEN /\ cnt' = raw.cnt /\ readyQ' = raw.readyQ /\ doneQ' = raw.doneQ /\ rem' = raw.rem
             /\ doneTx' = raw.doneTx /\ readyTx' = raw.readyTx
             /\ wDone' = raw.wDone /\ wReady' = raw.wReady
             /\ woken' = (woken \ {t}) \cup raw.woke
        ELSE /\ UNCHANGED <<cnt, readyQ, doneQ, rem, doneTx, readyTx, wDone, wReady>>
             /\ woken' = woken \ {t}
     /\ IF r.out \in {"item", "int_item"}
        THEN /\ yielded' = Append(yielded, raw.f)
             /\ held' = held \cup {raw.f}
             /\ afterSig' = IF sigSent THEN afterSig + 1 ELSE afterSig
        ELSE UNCHANGED <<yielded, held, afterSig>>
     /\ intSeen' = (intSeen \/ r.out \in {"int_item", "int_none"})
  /\ UNCHANGED <<n, E, C, es, dropped, streamDropped, sigSent>>

(* FnRef::drop: try_send the id, then the sender clone goes away *)
DropRef(f) ==
  /\ f \in held
  /\ held' = held \ {f}
  /\ dropped' = dropped \cup {f}
  /\ LET sent   == ~streamDropped /\ Len(doneQ) < Capacity
         closed == ~doneTx /\ held' = {}
     IN
     /\ doneQ' = IF sent THEN Append(doneQ, f) ELSE doneQ
     /\ IF (sent \/ closed) /\ wDone # 0 /\ ~streamDropped
        THEN woken' = woken \cup {wDone} /\ wDone' = 0
        ELSE UNCHANGED <<woken, wDone>>
  /\ UNCHANGED <<n, E, C, es, cnt, readyQ, readyTx, doneTx, rem, yielded, wReady, cur, last, streamDropped,
                 is, sigChan, sigSent, afterSig, intSeen>>

DropStream ==
  /\ DropStreamEarly /\ ~streamDropped /\ last # "end"
  /\ streamDropped' = TRUE
  /\ UNCHANGED <<n, E, C, es, cnt, readyQ, readyTx, doneQ, doneTx, rem, held, dropped, yielded, wDone, wReady, woken,
                 cur, last, is, sigChan, sigSent, afterSig, intSeen>>

EnvSignal ==
  /\ Wrapped /\ HasChannel(Strategy) /\ ~sigSent /\ ~PreSig /\ last # "end" /\ ~streamDropped
  /\ sigSent' = TRUE /\ sigChan' = TRUE
  /\ UNCHANGED <<n, E, C, es, cnt, readyQ, readyTx, doneQ, doneTx, rem, held, dropped, yielded, wDone, wReady, woken,
                 cur, last, streamDropped, is, afterSig, intSeen>>

Next == (\E t \in 1..Tasks : Poll(t)) \/ DropStream \/ EnvSignal \/ \E f \in 1..N : DropRef(f)

Spec == Init /\ [][Next]_vars

(* a consumer that polls when it may and eventually drops what it holds *)
LiveSpec == Spec /\ (\A t \in 1..Tasks : WF_vars(Poll(t))) /\ \A f \in 1..N : WF_vars(DropRef(f))
Ends == <>(last = "end" \/ streamDropped)

---------------------------------------------------------------------------
Ob == [ n |-> n, api |-> IF Wrapped THEN "stream_int" ELSE "stream", control |-> FALSE, order |-> Order, limit |-> 0,
        strategy |-> IF Wrapped THEN Strategy ELSE "none", k |-> K, include |-> TRUE,
        preSig |-> PreSig /\ Wrapped /\ HasChannel(Strategy),
        started |-> yielded, ended |-> dropped, failed |-> {}, sig |-> sigSent, afterSig |-> afterSig,
        aborted |-> streamDropped ]

TypeOK == /\ \A f \in 1..n : cnt[f] \in 0..n
          /\ Len(readyQ) <= Capacity /\ Len(doneQ) <= Capacity
          /\ held \subseteq Range(yielded) /\ dropped \subseteq Range(yielded) /\ held \cap dropped = {}
          /\ wDone \in 0..Tasks /\ wReady \in 0..Tasks /\ woken \subseteq 1..Tasks /\ cur \in 1..Tasks

Inv_C01 == C01_PathExclusion(C, held)
Inv_C02 == \A i \in DOMAIN yielded : C02_HandOut(n, C, Order, yielded[i], dropped)
Inv_C03 == NoDup(yielded) /\ (last = "end" => C03_AtEnd(Ob))
Inv_C05 == /\ (last = "pending" /\ ~streamDropped) =>
                /\ C05_NoStall(n, E, Order, Range(yielded), dropped, cur \in woken)
                /\ (C05_NoPendingWhenAll(n, Range(yielded)) \/ intSeen)
           /\ (last = "end") => C05_EndOnlyWhenAll(n, Range(yielded), intSeen)
Inv_C08 == /\ C08_AfterSignal(Ob) /\ C08_PreSignal(Ob)
           /\ (intSeen /\ last \notin {"int_item", "int_none"}) => last = "end"

=============================================================================
