------------------------------- MODULE Props -------------------------------
(***************************************************************************)
(* The listed properties C01..C20 (all but C19), written once, as          *)
(* predicates over an abstract OBSERVABLE state. The design models         *)
(* (Run, StreamApi, Builder, SeqIter, MultiRun) instantiate them through a  *)
(* refinement mapping and TLC checks them as invariants; the trace monitor  *)
(* (TraceMonitor) instantiates them from events recorded from the real     *)
(* code. This module is the only source of verdicts.                        *)
(*                                                                          *)
(* Abstract observation of one streaming call ("run record"):              *)
(*   n          number of functions                                         *)
(*   api        "fold" | "try_fold" | "for_each" | "try_for_each" |         *)
(*              "stream" | "stream_int"                                      *)
(*   control    BOOLEAN (control-flow flavour of try_for_each)              *)
(*   order      "fwd" | "rev"                                               *)
(*   limit      -1 (None) | 0 | k                                           *)
(*   strategy   "none" | "non" | "ignore" | "finish" | "poll_n";  k; include *)
(*   preSig     signal already pending when the call began                  *)
(*   started    sequence of functions handed to the caller, in order        *)
(*   ended      set of functions whose user future returned / FnRef dropped *)
(*   failed     set of functions that returned Err / Break                  *)
(*   sig        a signal was sent after the call began                      *)
(*   afterSig   number of hand-outs after that signal                       *)
(*   aborted    the call future / stream was dropped by the caller          *)
(***************************************************************************)
EXTENDS Graph, Integers

InFlight(o) == Range(o.started) \ o.ended

IsFold(o)       == o.api \in {"fold", "try_fold"}
IsConcurrent(o) == o.api \in {"for_each", "try_for_each"}
IsTry(o)        == o.api \in {"try_fold", "try_for_each"}
IsStream(o)     == o.api \in {"stream", "stream_int"}

(* stream_with ignores the interruptibility fields *)
Interrupting(o) == o.strategy \in {"finish", "poll_n"} /\ o.api # "stream"

EffectiveInterruptPossible(o) == Interrupting(o) /\ (o.sig \/ o.preSig)

CleanRun(o) == ~EffectiveInterruptPossible(o) /\ o.failed = {} /\ ~o.aborted

(* predecessors of f in the direction of the run *)
DirPreds(E, order, f) == IF order = "fwd" THEN Preds(E, f) ELSE Succs(E, f)
(* C is a reachability map (Graph!Reach); is a "before" b in the direction of the run? *)
DirBefore(C, order, a, b) == IF order = "fwd" THEN HasPath(C, a, b) ELSE HasPath(C, b, a)

---------------------------------------------------------------------------
(* C01  conflicting functions are never in flight together                 *)
C01_HandOut(reads, writes, f, inflight) ==
  \A g \in inflight \ {f} : ~Conflict(reads, writes, f, g)

(* design-level halves: the builder joins every conflicting pair by a path, *)
(* the scheduler never has two path-related functions in flight             *)
C01_ConflictOrdered(n, reads, writes, C) ==
  \A p \in ConflictPairs(n, reads, writes) : HasPath(C, p[1], p[2]) \/ HasPath(C, p[2], p[1])
C01_PathExclusion(C, inflight) ==
  \A a, b \in inflight : a # b => ~HasPath(C, a, b)

---------------------------------------------------------------------------
(* C02  nothing is handed out before everything it depends on (logic /     *)
(*      contains edges, transitively; dependants in reverse) has finished   *)
C02_HandOut(n, UC, order, f, ended) ==
  \A a \in 1..n : DirBefore(UC, order, a, f) => a \in ended

---------------------------------------------------------------------------
(* C03  at most once; exactly once in a clean run                          *)
C03_HandOut(f, started) == f \notin Range(started)
C03_AtEnd(o) == CleanRun(o) => Range(o.started) = 1..o.n /\ NoDup(o.started)

---------------------------------------------------------------------------
(* C04  every call returns: no deadlock / lost wake-up / panic; everything *)
(*      started has completed at return                                     *)
(* idle = the call is pending and no wake-up is outstanding                 *)
C04_NoDeadlock(idle, returned, inflight) == idle /\ ~returned => inflight # {}
C04_ReturnClean(inflight) == inflight = {}

---------------------------------------------------------------------------
(* C05  stream(): after a Pending poll, until the next poll: woken, or every *)
(*      unyielded function still has a predecessor whose FnRef is not dropped *)
C05_NoStall(n, E, order, yielded, dropped, woken) ==
  woken \/ \A f \in (1..n) \ yielded : \E p \in DirPreds(E, order, f) : p \notin dropped
(* None exactly after all functions were yielded (interrupted streams end early) *)
C05_EndOnlyWhenAll(n, yielded, interruptedSeen) == interruptedSeen \/ yielded = 1..n
C05_NoPendingWhenAll(n, yielded) == yielded # 1..n

---------------------------------------------------------------------------
(* C06  eager: at an idle point of an unlimited, uninterrupted, failure-free *)
(*      concurrent call every function whose predecessors (built graph) have *)
(*      all returned has been started                                        *)
C06_Applies(o) ==
  /\ IsConcurrent(o) /\ o.limit \in {-1, 0}
  /\ ~(o.sig \/ o.preSig) /\ o.failed = {} /\ ~o.aborted
C06_Eager(n, E, order, started, ended) ==
  \A f \in (1..n) \ started : \E p \in DirPreds(E, order, f) : p \notin ended
(* the same for stream*(): the stream is idle (Pending, no wake-up of the polling task) although a function whose  *)
(* predecessors' FnRefs were all dropped has not been yielded -- C05's stall predicate, read as eagerness        *)
C06_StreamApplies(o) == IsStream(o) /\ ~(o.sig \/ o.preSig) /\ ~o.aborted
C06_StreamEager(n, E, order, yielded, dropped, woken) == C05_NoStall(n, E, order, yielded, dropped, woken)
(* every edge the user did not add is a Data edge between conflicting functions *)
C06_DataOnlyForConflict(built, ue, reads, writes) ==
  LET UP == PairsOfSeq(ue) IN
  \A i \in DOMAIN built :
    <<built[i][1], built[i][2]>> \notin UP
      => built[i][3] = "data" /\ Conflict(reads, writes, built[i][1], built[i][2])

---------------------------------------------------------------------------
(* C07  failures                                                            *)
(* no function ordered after a failed one (built graph) is started          *)
C07_HandOut(C, order, f, failed) == \A g \in failed : ~DirBefore(C, order, g, f)
(* exactly one error per failed function *)
C07_ErrorsExact(errors, failed) ==
  /\ Range(errors) = failed
  /\ Len(errors) = Cardinality(failed)
(* "the call returns Err/Break carrying ...": a call with failed functions that is pending with nothing in flight  *)
(* and no wake-up scheduled will never report them (the C04 dead end, reported under C07 when a function failed)  *)
C07_Returns(idle, returned, inflight) == C04_NoDeadlock(idle, returned, inflight)
(* try_fold: the first error is returned and nothing is invoked after it *)
C07_FoldNoneAfter(failed) == failed = {}
C07_FoldResult(isErr, err, failedSeq) ==
  IF failedSeq = <<>> THEN ~isErr ELSE isErr /\ err = failedSeq[1]

---------------------------------------------------------------------------
(* C08  interruption bounds                                                 *)
Bound(strategy, k, include) ==
  IF strategy = "finish" \/ (strategy = "poll_n" /\ k = 0)
  THEN (IF include THEN 1 ELSE 0)
  ELSE k
PreBound(strategy, k) == IF strategy = "finish" \/ k = 0 THEN 0 ELSE k

(* streams ignore the include flag *)
IncludeOf(o) == IF IsStream(o) THEN TRUE ELSE o.include

C08_AfterSignal(o) ==
  (Interrupting(o) /\ o.sig /\ ~o.preSig) => o.afterSig <= Bound(o.strategy, o.k, IncludeOf(o))
C08_PreSignal(o) ==
  (Interrupting(o) /\ o.preSig) => Len(o.started) <= PreBound(o.strategy, o.k)
(* "... and the call returns": once interrupted, a call that is pending with nothing in flight and no wake-up  *)
(* scheduled will never return (the C04 dead end, reported under C08 when an interrupt is in play)          *)
C08_Returns(idle, returned, inflight) == C04_NoDeadlock(idle, returned, inflight)
(* everything started is completed and reported as processed *)
C08_StartedProcessed(started, processed, inflight) ==
  Range(started) \subseteq Range(processed) /\ inflight = {}

---------------------------------------------------------------------------
(* C09  StreamOutcome                                                       *)
C09_Processed(processed, started) == processed = started
C09_NotProcessed(n, notProcessed, started) == notProcessed = Ascending(n, (1..n) \ Range(started))
C09_State(n, state, started) ==
  IF Range(started) = 1..n THEN state = "finished" ELSE state = "interrupted"
C09_Control(kind, state, failed) ==
  (kind = "continue") <=> (state = "finished" /\ failed = {})

---------------------------------------------------------------------------
(* C10  concurrency limit                                                   *)
C10_HandOut(o, inflightAfter) ==
  /\ IsFold(o) => Cardinality(inflightAfter) <= 1
  /\ (IsConcurrent(o) /\ o.limit >= 1) => Cardinality(inflightAfter) <= o.limit

(* "any limit >= 1 still lets every graph run to completion": the same dead end under a limit *)
C10_Completes(idle, returned, inflight) == C04_NoDeadlock(idle, returned, inflight)

---------------------------------------------------------------------------
(* C11  build(): total, faithful, orders every conflict                     *)
C11_KeepsUserEdges(built, ue) ==
  LET B == Range(built)  U == Range(ue) IN
  /\ U \subseteq B                                              \* every accepted edge, with its kind
  /\ { e \in B : e[3] # "data" } \subseteq U                    \* additional edges only of kind Data
  /\ Cardinality(PairsOfSeq(built)) = Len(built)                \* one edge per ordered pair
C11_DataOnlyBetweenConflicting(built, reads, writes) ==
  \A i \in DOMAIN built : built[i][3] = "data" => Conflict(reads, writes, built[i][1], built[i][2])

---------------------------------------------------------------------------
(* C12  direction by rank then insertion; no redundant data edge            *)
C12_Direction(n, reads, writes, UC, C, rank) ==
  \A p \in ConflictPairs(n, reads, writes) :
    (~HasPath(UC, p[1], p[2]) /\ ~HasPath(UC, p[2], p[1]) /\ Before(rank, p[1], p[2])) => HasPath(C, p[1], p[2])
C12_NoRedundantData(n, built) ==
  \A i \in DOMAIN built :
    built[i][3] = "data" =>
      built[i][2] \notin ReachFrom(n, PairsOfSeq(built) \ {<<built[i][1], built[i][2]>>}, built[i][1])
(* the same for an acyclic graph whose closure C is at hand: a second path a ~> b must leave a through       *)
(* another successor c and continue c ~> b (it cannot come back to a)                                        *)
C12_NoRedundantDataC(built, C) ==
  LET E == PairsOfSeq(built) IN
  \A i \in DOMAIN built :
    built[i][3] = "data" =>
      LET a == built[i][1]  b == built[i][2] IN
      \A c \in Succs(E, a) \ {b} : ~HasPath(C, c, b)

---------------------------------------------------------------------------
(* C13  ranks                                                               *)
C13_Ranks(n, ranks, ue) ==
  LET lc == LongestChain(n, PairsOfSeq(ue)) IN
  Len(ranks) = n /\ \A f \in 1..n : ranks[f] = lc[f]

---------------------------------------------------------------------------
(* C14  sequential iteration                                                *)
C14_Topo(n, seq, E) == IsTopo(n, seq, E)
C14_RevTopo(n, seq, E) == IsTopo(n, seq, Rev(E))
C14_Insertion(n, seq) == seq = [i \in 1..n |-> i]
C14_InsertionRev(n, seq) == seq = [i \in 1..n |-> n + 1 - i]
(* try_*: stops at the failing visit; what was visited is a topological prefix *)
C14_Try(n, seq, E, failAt, res) ==
  IF failAt \in 1..n
  THEN res = "err" /\ Len(seq) = failAt /\ IsTopoPrefix(seq, E) /\ Range(seq) \subseteq 1..n
  ELSE res = "ok" /\ IsTopo(n, seq, E)

---------------------------------------------------------------------------
(* two walks over different graph values in progress at once: each is complete and in order on its own *)
C14_Nested(n, seq, E, res) == res = "ok" /\ IsTopo(n, seq, E)

---------------------------------------------------------------------------
(* C16  the builder rejects exactly the cycle-closing edges                 *)
C16_Result(res, expected) == res = expected
C16_Edges(built, ue) ==
  LET user == SelectSeq(built, LAMBDA e : e[3] # "data") IN user = ue

---------------------------------------------------------------------------
(* C17  GraphInfo                                                           *)
C17_Mirror(giNodes, wantNodes, giEdges, built) == giNodes = wantNodes /\ giEdges = built
C17_RoundTrip(ok, equal, equalRev, rtNodes, rtEdges, giNodes, giEdges) ==
  ok /\ equal /\ equalRev /\ rtNodes = giNodes /\ rtEdges = giEdges

(* the round trip does not depend on the caller's node-info type or on the serialiser *)
C17_RoundTripAny(ok, equal) == ok /\ equal

---------------------------------------------------------------------------
(* C18  polynomial work: rank calculation pops; and "builds promptly": a graph of a few hundred functions, on    *)
(* which the code as given needs milliseconds, is built within the harness' generous wall-clock bound           *)
C18_PopBound(n, pops) == pops <= n * n + n
C18_Prompt(finished) == finished

=============================================================================
