------------------------------ MODULE SeqIter ------------------------------
(***************************************************************************)
(* The sequential APIs (iter, iter_rev, toposort, map, fold, try_fold,      *)
(* for_each, try_for_each: src/fn_graph.rs:80-111, 1822-1893) are walks of  *)
(* petgraph 0.8.3 `Topo` (visit/traversal.rs:318-430) over one of the       *)
(* graph copies. Topo is transcribed: a stack seeded with the nodes without *)
(* incoming edges in index order, popped from the end; a popped node is     *)
(* emitted and each of its successors whose predecessors have all been      *)
(* emitted is pushed.  `Dir` = "fwd" walks the graph, "rev" the reversed    *)
(* copy (iter_rev).  FailAt = k makes the k-th visit fail (try variants).          *)
(***************************************************************************)
EXTENDS Props, TLC

CONSTANTS N, Dir, FailAt,
          IgnoreErr     \* FALSE; deviation: a try_* walk continues after the error

VARIABLES n, E, tovisit, ordered, seq, stopped

vars == <<n, E, tovisit, ordered, seq, stopped>>

G == IF Dir = "fwd" THEN E ELSE Rev(E)
AllPairs(k) == { p \in (1..k) \X (1..k) : p[1] # p[2] }
DagSets(k) == { S \in SUBSET AllPairs(k) : (\A p \in S : <<p[2], p[1]>> \notin S) /\ Acyclic(k, S) }
Perms(S) == { p \in [1..Cardinality(S) -> S] : \A a, b \in DOMAIN p : a # b => p[a] # p[b] }

Init ==
  /\ n \in 0..N
  /\ E \in DagSets(n)
  /\ tovisit = Ascending(n, { f \in 1..n : Preds(G, f) = {} })
  /\ ordered = {} /\ seq = <<>> /\ stopped = FALSE

(* Topo::next *)
Visit ==
  /\ ~stopped /\ tovisit # <<>>
  /\ LET v == tovisit[Len(tovisit)]  rest == SubSeq(tovisit, 1, Len(tovisit) - 1) IN
     IF v \in ordered
     THEN tovisit' = rest /\ UNCHANGED <<ordered, seq, stopped>>
     ELSE /\ ordered' = ordered \cup {v}
          /\ seq' = Append(seq, v)
          /\ stopped' = (~IgnoreErr /\ FailAt = Len(seq) + 1)
          /\ \E p \in Perms({ c \in Succs(G, v) : Preds(G, c) \subseteq ordered \cup {v} }) :
               tovisit' = rest \o p
  /\ UNCHANGED <<n, E>>

Next == Visit
Spec == Init /\ [][Next]_vars

Done == stopped \/ tovisit = <<>>

Inv_C14 ==
  /\ IsTopoPrefix(seq, G)
  /\ Done => IF FailAt \in 1..n
             THEN C14_Try(n, seq, G, FailAt, IF stopped THEN "err" ELSE "ok")
             ELSE (IF Dir = "fwd" THEN C14_Topo(n, seq, E) ELSE C14_RevTopo(n, seq, E))
=============================================================================
