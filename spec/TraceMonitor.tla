---------------------------- MODULE TraceMonitor ----------------------------
(***************************************************************************)
(* Implementation -> specification. Reads an ndjson trace recorded from    *)
(* the real fn_graph by the controlled executor (IOEnv.TRACE), replays it   *)
(* one event per state, keeps the abstract observable state of Props, and   *)
(* evaluates every property operator that the event can affect. A failed    *)
(* predicate does not block the trace: it is printed (one VIOL line) and    *)
(* counted, and the rest of the trace is still checked.                     *)
(*                                                                          *)
(* This module decides; the harness only records. Events are direct          *)
(* observations (closure invoked, future returned, waker flag after a poll, *)
(* returned value, public fields); nothing is inferred by post-processing.  *)
(***************************************************************************)
EXTENDS Props, Build, Json, IOUtils, TLC

Rec == ndJsonDeserialize(IOEnv.TRACE)

VARIABLES l,      \* next line of Rec
          st,     \* abstract state
          nviol,  \* number of violations printed so far
          cov     \* vacuity guard: how often each predicate had a non-trivial antecedent
                  \*   cov.ev[k] = events, cov.tr[k] = distinct traces, cov.cur = flags of this trace

vars == <<l, st, nviol, cov>>

ToSets(ss) == [ i \in DOMAIN ss |-> Range(ss[i]) ]

St0 == [ scn |-> "", n |-> 0, reads |-> <<>>, writes |-> <<>>, ue |-> <<>>,
         hasBuilt |-> FALSE, built |-> <<>>, E |-> {},
         conf |-> FALSE,                  \* the declarations contain a conflicting pair
         multi |-> FALSE,                 \* more than one run in this scenario: keep per-run observation sequences
         giNodes |-> <<>>, giEdges |-> <<>>,
         runs |-> <<>>, saved |-> <<>>, mode |-> "" ]

(***************************************************************************)
(* Large per-scenario data derived from the `build` event (closures,        *)
(* predecessor / successor maps) lives in TLC register 2, not in the state: *)
(* it is a function of the trace prefix, the search is a single path        *)
(* (-workers 1), and keeping thousands of pairs out of the state keeps      *)
(* fingerprinting linear in the trace.                                      *)
(***************************************************************************)
D == TLCGet(2)
UD == TLCGet(3)                   \* descendant map of the accepted user edges (Build!ApplyEdgeD)
D0 == [C |-> <<>>, UC |-> <<>>, PM |-> <<>>, SM |-> <<>>]
DerivedOf(s, e) ==
  LET n == s.n
      E == PairsOfSeq(e.edges)
      ud == UD
  IN [ C  |-> ReachAny(n, E), UC |-> ud,
       PM |-> [f \in 1..n |-> Preds(E, f)], SM |-> [f \in 1..n |-> Succs(E, f)] ]

Run0(e) == [ cfg |-> e, started |-> <<>>, ended |-> {}, failed |-> {}, failedSeq |-> <<>>,
             sig |-> FALSE, afterSig |-> 0, aborted |-> FALSE, returned |-> FALSE,
             sigInside |-> FALSE,                   \* the signal was sent by a user future in the middle of a poll
             pulls |-> 0, pullsAfterSig |-> 0,      \* hook `ready_recv`: functions handed out by the ready stream
             acts |-> 0, pits |-> 0,                \* calls of fn_interrupt_activate / fn_interrupt_poll_item
             pendingOpen |-> FALSE, sEnded |-> FALSE, intSeen |-> FALSE, obs |-> <<>> ]

(* the Props-level observation of a run *)
Obs(s, R) == [ n |-> s.n, api |-> R.cfg.api, control |-> R.cfg.control, order |-> R.cfg.order,
               limit |-> R.cfg.limit, strategy |-> R.cfg.strategy, k |-> R.cfg.k,
               include |-> R.cfg.include, preSig |-> R.cfg.pre_signal,
               started |-> R.started, ended |-> R.ended, failed |-> R.failed,
               sig |-> R.sig, afterSig |-> R.afterSig, aborted |-> R.aborted ]

V(p, msg) == [p |-> p, msg |-> msg]
If(c, p, msg) == IF c THEN <<>> ELSE <<V(p, msg)>>

HasRun(s, e) == "run" \in DOMAIN e /\ e.run \in DOMAIN s.runs
SetRun(s, r, R) == [s EXCEPT !.runs = [s.runs EXCEPT ![r] = R]]
(* projection of an event for run-by-run comparison: drop the run id *)
Proj(e) == [ f \in (DOMAIN e) \ {"run"} |-> e[f] ]
Log(R, e) == [R EXCEPT !.obs = Append(@, Proj(e))]
LogIf(s, R, e) == IF s.multi THEN Log(R, e) ELSE R

---------------------------------------------------------------------------
(* builder events                                                          *)

OnReset(s, e) ==
  [ st |-> [St0 EXCEPT !.scn = e.scn, !.n = e.n, !.reads = ToSets(e.reads), !.writes = ToSets(e.writes),
                       !.conf = (ConflictPairs(e.n, ToSets(e.reads), ToSets(e.writes)) # {}),
                       !.multi = ("multi" \in DOMAIN e /\ e.multi)],
    v  |-> <<>> ]

OnAddFn(s, e) == [ st |-> s, v |-> If(e.id = e.want, "C11", "add_fn returned another id") ]

OnAddEdge(s, e) ==
  LET r == ApplyEdgeD(s.n, s.ue, UD, e.a, e.b, e.kind) IN
  [ st |-> [s EXCEPT !.ue = r.ue], ud |-> r.D,
    v  |-> If(C16_Result(e.res, r.res), "C16", "add_edge result") ]

OnAddEdges(s, e) ==
  LET r == ApplyEdgesD(s.n, s.ue, UD, e.pairs, e.kind) IN
  [ st |-> [s EXCEPT !.ue = r.ue], ud |-> r.D,
    v  |-> If(C16_Result(e.res, r.res), "C16", "add_edges result") ]

OnBuild(s, e) ==
  IF e.panic # ""
  THEN [ st |-> s, v |-> <<V("C11", "build panicked")>> ]
  ELSE
    LET n     == s.n
        built == e.edges
        E     == PairsOfSeq(built)
        dag   == IsDag(n, E)
        dv    == D                               \* set from DerivedOf(s, e) by Next before this is evaluated
        C     == dv.C
        UC    == dv.UC
        rank  == Ranks(n, s.ue)
        inRange == \A i \in DOMAIN built : built[i][1] \in 1..n /\ built[i][2] \in 1..n /\ built[i][3] \in Kinds
    IN
    [ st |-> [s EXCEPT !.hasBuilt = TRUE, !.built = built, !.E = E],
      v  |-> IF ~inRange THEN <<V("C11", "edge endpoints or kind out of range")>> ELSE
             If(e.ids = [i \in 1..n |-> i], "C11", "functions not under their FnIds")
          \o If(dag, "C11", "built graph is cyclic")
          \o If(C11_KeepsUserEdges(built, s.ue), "C11", "user edges not kept")
          \o If(C11_DataOnlyBetweenConflicting(built, s.reads, s.writes), "C11", "data edge between non-conflicting")
          \o If(C01_ConflictOrdered(n, s.reads, s.writes, C), "C11", "conflicting pair not joined by a path")
          \o If(C06_DataOnlyForConflict(built, s.ue, s.reads, s.writes), "C06", "extra edge without conflict")
          \o If(C12_Direction(n, s.reads, s.writes, UC, C, rank), "C12", "direction of a conflicting pair")
          \o If(IF dag THEN C12_NoRedundantDataC(built, C) ELSE C12_NoRedundantData(n, built), "C12", "redundant data edge")
          \o If(C13_Ranks(n, e.ranks, s.ue), "C13", "ranks")
          \o If(C16_Edges(built, s.ue), "C16", "accepted edges not intact")
          \o If(e.rank_pops < 0 \/ C18_PopBound(n, e.rank_pops), "C18", "rank pops over bound")
          \o (IF n <= 16 THEN If(built = Built(n, s.ue, s.reads, s.writes), "DRIFT", "built edge sequence differs from Build!Built")
              ELSE <<>>) ]

OnEq(s, e) ==
  LET same == e.variant = "same" \/ e.variant = "clone" IN
  [ st |-> s,
    v  |-> IF "panic" \in DOMAIN e THEN <<V("C11", "build of variant panicked")>> ELSE
           If(e.res = e.res_rev, "C12", "== not symmetric")
        \o (IF same THEN If(e.res /\ e.ranks_eq, "C12", "same calls built unequal graphs")
            ELSE IF e.tags_differ THEN If(~e.res, "C12", "changed function compares equal")
            ELSE IF UserEdges(e.n, e.calls) # s.ue THEN If(~e.res, "C12", "changed edge compares equal")
            ELSE If(e.res, "DRIFT", "effectively identical calls compare unequal")) ]

OnSeq(s, e) ==
  LET n == s.n  E == s.E  a == e.api  q == e.order IN
  [ st |-> s,
    v  |-> IF a \in {"iter", "toposort", "map", "fold", "for_each"}
             THEN If(C14_Topo(n, q, E), "C14", a)
           ELSE IF a \in {"for_each_nested", "fold_nested", "map_zip_left", "map_zip_right", "inner_after_nested"}
             THEN If(C14_Nested(n, q, E, e.res), "C14", a)
           ELSE IF a \in {"try_fold_nested", "try_for_each_nested"} THEN If(C14_Try(n, q, E, e.fail_at, e.res), "C14", a)
           ELSE IF a = "iter_rev" THEN If(C14_RevTopo(n, q, E), "C14", a)
           ELSE IF a \in {"try_fold", "try_for_each"} THEN If(C14_Try(n, q, E, e.fail_at, e.res), "C14", a)
           ELSE IF a = "iter_insertion_rev" THEN If(C14_InsertionRev(n, q), "C14", a)
           ELSE If(C14_Insertion(n, q), "C14", a) ]

OnGraphInfo(s, e) ==
  [ st |-> [s EXCEPT !.giNodes = e.nodes, !.giEdges = e.edges],
    v  |-> If(C17_Mirror(e.nodes, e.want_nodes, e.edges, s.built), "C17", "GraphInfo differs from the graph") ]

OnGraphInfoRt(s, e) ==
  [ st |-> s,
    v  |-> If(C17_RoundTrip(e.ok, e.equal, e.equal_rev, e.nodes, e.edges, s.giNodes, s.giEdges),
              "C17", "serde round trip") ]

OnGraphInfoRt2(s, e) ==
  [ st |-> s,
    v  |-> If(C17_RoundTripAny(e.ok, e.equal), "C17", "round trip with node info " \o e.kind \o " (" \o e.codec \o ")") ]

OnBuildTimeout(s, e) ==
  [ st |-> s,
    v  |-> If(C18_Prompt(FALSE), "C18",
              IF "why" \in DOMAIN e /\ e.why = "memory" THEN "build() exceeded the memory bound"
              ELSE "build() did not finish within the time bound") ]

OnGiIter(s, e) ==
  [ st |-> s,
    v  |-> IF e.ev = "gi_iter" THEN If(C14_Topo(s.n, e.seq, s.E), "C17", "GraphInfo::iter")
           ELSE If(C14_RevTopo(s.n, e.seq, s.E), "C17", "GraphInfo::iter_rev") ]

---------------------------------------------------------------------------
(* streaming calls                                                         *)

OnCall(s, e) ==
  [ st |-> [s EXCEPT !.runs = Append(@, LogIf(s, Run0(e), e))],
    v  |-> If(e.run = Len(s.runs) + 1, "DRIFT", "run ids out of order") ]

(* a function is handed to the caller: `start` of a call, item of a stream *)
HandOut(s, r, R0, f) ==
  LET o0       == Obs(s, R0)
      inflight == InFlight(o0)
      R        == [R0 EXCEPT !.started = Append(@, f),
                             !.afterSig = IF R0.sig THEN @ + 1 ELSE @]
      o        == Obs(s, R)
  IN
  [ R |-> R,
    v |-> If(f \in 1..s.n, "C03", "unknown function handed out")
       \o If(C01_HandOut(s.reads, s.writes, f, inflight), "C01", "conflicting functions in flight")
       \o If(C02_HandOut(s.n, D.UC, o.order, f, R0.ended), "C02", "handed out before a dependency finished")
       \o If(C03_HandOut(f, R0.started), "C03", "handed out twice")
       \o (IF o.api = "try_for_each" THEN If(C07_HandOut(D.C, o.order, f, R0.failed), "C07", "started after a failed predecessor")
           ELSE IF o.api = "try_fold" THEN If(C07_FoldNoneAfter(R0.failed), "C07", "try_fold invoked a function after an error")
           ELSE <<>>)
       \o (IF C08_AfterSignal(o) THEN <<>>
           \* With fn_graph's own `ready_recv` events in the trace the monitor can tell WHERE the bound broke:
           \* if the ready stream handed out no more than the bound after the signal, the surplus function was
           \* pulled before the signal and only got its first poll after it (signal sent in the middle of a poll).
           ELSE IF R0.pulls > 0 /\ C08_AfterSignal([o EXCEPT !.afterSig = R0.pullsAfterSig])
                THEN <<V("C08", "started after the signal although handed out before it")>>
           \* A signal sent in the middle of a poll, in a trace WITHOUT fn_graph's own events: whether the surplus
           \* function was handed out before or after the signal cannot be told from this trace, so it decides nothing
           \* (the harness records such runs with hooks on; this clause only keeps a hook-less trace from raising the
           \* known finding as a new violation).
           ELSE IF R0.pulls = 0 /\ R0.sigInside /\ IsConcurrent(o) THEN <<>>
                ELSE <<V("C08", "too many functions after the signal")>>)
       \o If(C08_PreSignal(o), "C08", "too many functions with a pending signal")
       \o If(C10_HandOut(o, InFlight(o)), "C10", "limit exceeded") ]

OnStart(s, e) ==
  LET r == e.run  h == HandOut(s, r, s.runs[r], e.f) IN
  [ st |-> SetRun(s, r, LogIf(s, h.R, e)),
    v  |-> h.v \o If(~s.runs[r].returned, "C04", "function started after the call returned") ]

OnEnd(s, e) ==
  LET r == e.run  R0 == s.runs[r]
      R == [R0 EXCEPT !.ended = @ \cup {e.f},
                      !.failed = IF e.ok THEN @ ELSE @ \cup {e.f},
                      !.failedSeq = IF e.ok THEN @ ELSE Append(@, e.f)]
  IN [ st |-> SetRun(s, r, LogIf(s, R, e)), v |-> <<>> ]

(* a started user future was dropped without completing *)
OnCancel(s, e) ==
  LET r == e.run  R0 == s.runs[r]
      R == [R0 EXCEPT !.ended = @ \cup {e.f}]
  IN [ st |-> SetRun(s, r, LogIf(s, R, e)),
       v  |-> If(R0.aborted, "C04", "a started function was dropped before it completed") ]

OnSignal(s, e) ==
  LET r == e.run
      first == ~s.runs[r].sig /\ e.sent
      R == [s.runs[r] EXCEPT !.sig = @ \/ e.sent, !.sigInside = @ \/ (first /\ "inside" \in DOMAIN e)] IN
  [ st |-> SetRun(s, r, LogIf(s, R, e)), v |-> <<>> ]

(* the edges that can matter for "is every unstarted function still blocked": those into unstarted functions *)
EdgesInto(s, order, U) ==
  IF order = "fwd" THEN UNION { { <<p, f>> : p \in D.PM[f] } : f \in U }
  ELSE UNION { { <<f, q>> : q \in D.SM[f] } : f \in U }

OnPoll(s, e) ==
  LET r == e.run  R == s.runs[r]  o == Obs(s, R)
      idle == e.res = "pending" /\ ~e.woken
  IN
  [ st |-> SetRun(s, r, LogIf(s, R, e)),
    v  |-> If(C04_NoDeadlock(idle, FALSE, InFlight(o)), "C04", "pending, not woken, nothing in flight")
        \* C08 "... and the call returns": the same dead end after an effective interrupt
        \o (IF EffectiveInterruptPossible(o)
            THEN If(C08_Returns(idle, FALSE, InFlight(o)), "C08", "interrupted call neither returns nor is woken")
            ELSE <<>>)
        \o (IF R.failed # {}
            THEN If(C07_Returns(idle, FALSE, InFlight(o)), "C07", "call with failed functions neither returns nor is woken")
            ELSE <<>>)
        \o (IF IsConcurrent(o) /\ o.limit >= 1
            THEN If(C10_Completes(idle, FALSE, InFlight(o)), "C10", "limited call neither returns nor is woken")
            ELSE <<>>)
        \o (IF idle /\ C06_Applies(o)
            THEN If(C06_Eager(s.n, EdgesInto(s, o.order, (1..s.n) \ Range(R.started)), o.order, Range(R.started), R.ended),
                    "C06", "idle with a startable function")
            ELSE <<>>)
        \o If(Range(e.inflight) = InFlight(o), "DRIFT", "harness in-flight set differs") ]

OnReturn(s, e) ==
  LET r == e.run  R0 == s.runs[r]  o == Obs(s, R0)
      R == [R0 EXCEPT !.returned = TRUE]
      foldErr == e.kind = "fold_err"
  IN
  [ st |-> SetRun(s, r, LogIf(s, R, e)),
    v  |-> If(C04_ReturnClean(InFlight(o)), "C04", "returned with functions in flight")
        \o If(C03_AtEnd(o), "C03", "clean run did not run every function once")
        \o (IF o.api = "try_for_each"
            THEN (IF e.kind \in {"ok", "continue"} THEN If(R0.failed = {}, "C07", "failure not reported")
                  ELSE If(C07_ErrorsExact(e.errors, R0.failed), "C07", "errors differ from failed functions"))
            ELSE IF o.api = "try_fold"
            THEN If(C07_FoldResult(foldErr, e.err, R0.failedSeq), "C07", "try_fold result")
            ELSE <<>>)
        \o (IF foldErr THEN <<>> ELSE
              If(C08_StartedProcessed(R0.started, e.processed, InFlight(o)), "C08", "started function not processed")
           \o If(C09_Processed(e.processed, R0.started), "C09", "fn_ids_processed")
           \o If(C09_NotProcessed(s.n, e.not_processed, R0.started), "C09", "fn_ids_not_processed")
           \o If(C09_State(s.n, e.state, R0.started), "C09", "state")
           \o (IF o.control THEN If(C09_Control(e.kind, e.state, R0.failed), "C09", "control flow") ELSE <<>>)
           \o (IF IsFold(o) THEN If(e.value = R0.started \/ R0.failed # {}, "DRIFT", "fold value") ELSE <<>>)) ]

OnAbort(s, e) ==
  LET r == e.run  R == [s.runs[r] EXCEPT !.aborted = TRUE] IN
  [ st |-> SetRun(s, r, LogIf(s, R, e)), v |-> <<>> ]

OnSpoll(s, e) ==
  LET r == e.run  R0 == s.runs[r]  o0 == Obs(s, R0)
      yielded == Range(R0.started)
  IN
  IF e.res = "item" THEN
    LET h  == IF e.f # 0 THEN HandOut(s, r, R0, e.f) ELSE [R |-> R0, v |-> <<>>]
        R  == [h.R EXCEPT !.pendingOpen = FALSE, !.intSeen = @ \/ e.interrupted]
    IN [ st |-> SetRun(s, r, LogIf(s, R, e)),
         v  |-> h.v
             \o If(~R0.sEnded, "C05", "item after the stream ended")
             \o If(~R0.intSeen, "C08", "stream did not end right after the Interrupted item")
             \o If(e.f # 0 \/ e.interrupted, "C05", "item without a function")
             \o If(e.interrupted => R0.pits = 1, "DRIFT", "Interrupted item without fn_interrupt_poll_item") ]
  ELSE IF e.res = "pending" THEN
    LET R == [R0 EXCEPT !.pendingOpen = TRUE] IN
    [ st |-> SetRun(s, r, LogIf(s, R, e)),
      v  |-> If(C05_NoPendingWhenAll(s.n, yielded) \/ R0.intSeen, "C05", "pending although every function was yielded")
          \o If(~R0.intSeen, "C08", "stream did not end right after the Interrupted item")
          \o If(~R0.sEnded, "C05", "pending after the stream ended")
          \o If(C05_NoStall(s.n, EdgesInto(s, o0.order, (1..s.n) \ yielded), o0.order, yielded, R0.ended, e.woken),
                "C05", "pending, unblocked function, no wake-up")
          \o (IF C06_StreamApplies(o0)
              THEN If(C06_StreamEager(s.n, EdgesInto(s, o0.order, (1..s.n) \ yielded), o0.order, yielded, R0.ended, e.woken),
                      "C06", "stream idle with a function whose predecessors have all returned")
              ELSE <<>>) ]
  ELSE
    LET R == [R0 EXCEPT !.pendingOpen = FALSE, !.sEnded = TRUE, !.returned = TRUE] IN
    [ st |-> SetRun(s, r, LogIf(s, R, e)),
      v  |-> If(C05_EndOnlyWhenAll(s.n, yielded, R0.intSeen), "C05", "stream ended before every function was yielded")
          \o If(C03_AtEnd(o0), "C03", "clean stream did not yield every function once") ]

OnDropRef(s, e) ==
  LET r == e.run  R0 == s.runs[r]  o0 == Obs(s, R0)
      R == [R0 EXCEPT !.ended = @ \cup {e.f}]
  IN
  [ st |-> SetRun(s, r, LogIf(s, R, e)),
    v  |-> IF R0.pendingOpen /\ ~R0.sEnded /\ ~R0.aborted
           THEN If(C05_NoStall(s.n, EdgesInto(s, o0.order, (1..s.n) \ Range(R.started)), o0.order, Range(R.started), R.ended, e.woken),
                   "C05", "FnRef dropped, function unblocked, no wake-up")
             \o (IF C06_StreamApplies(o0)
                 THEN If(C06_StreamEager(s.n, EdgesInto(s, o0.order, (1..s.n) \ Range(R.started)), o0.order, Range(R.started),
                                         R.ended, e.woken),
                         "C06", "stream idle after an FnRef drop with a function whose predecessors have all returned")
                 ELSE <<>>)
           ELSE <<>> ]

(* The callbacks of the interruptibility state (not a listed property: a mismatch with IStreamMC!Inv_Callbacks *)
(* is reported as drift): activate at most once and only for an interrupting strategy, poll_item at most    *)
(* once and not before activate.                                                                            *)
OnIntCallback(s, e) ==
  LET r == e.run  R0 == s.runs[r]
      R == IF e.ev = "int_activate" THEN [R0 EXCEPT !.acts = @ + 1] ELSE [R0 EXCEPT !.pits = @ + 1]
  IN [ st |-> SetRun(s, r, R),
       v  |-> If(R.acts <= 1 /\ R.pits <= 1 /\ R.pits <= R.acts /\ R0.cfg.strategy \in {"finish", "poll_n"},
                 "DRIFT", "interrupt callbacks differ from IStreamMC!Inv_Callbacks") ]

OnPanic(s, e) ==
  [ st |-> s,
    v  |-> IF e.run = 0
           THEN <<V(IF e.api = "graph_info" THEN "C17" ELSE "C14", "panic")>>
           ELSE IF HasRun(s, e) /\ s.runs[e.run].cfg.api \in {"stream", "stream_int"}
                THEN <<V("C05", "panic")>>
                ELSE <<V("C04", "panic")>> ]

(* Re-execution of run `of` alone on a freshly built graph: the observations *)
(* must be the same as when it ran after / alongside the other runs.         *)
OnFreshBegin(s, e) ==
  [ st |-> [s EXCEPT !.saved = IF e.first THEN [i \in DOMAIN s.runs |-> s.runs[i].obs] ELSE @,
                     !.runs = <<>>, !.mode = e.mode],
    v  |-> <<>> ]

OnFreshEnd(s, e) ==
  [ st |-> s,
    v  |-> If(Len(s.runs) = 1 /\ e.of \in DOMAIN s.saved /\ s.runs[1].obs = s.saved[e.of],
              IF s.mode = "overlap" THEN "C20" ELSE "C15",
              "run behaves differently from the same run on a fresh graph") ]

---------------------------------------------------------------------------
OnReadyRecv(s, e) ==
  LET r == e.run  R0 == s.runs[r]
      R == [R0 EXCEPT !.pulls = @ + 1, !.pullsAfterSig = IF R0.sig THEN @ + 1 ELSE @]
  IN [ st |-> SetRun(s, r, R), v |-> <<>> ]

Apply(s, e) ==
  IF "hook" \in DOMAIN e
  THEN (IF e.ev = "ready_recv" /\ HasRun(s, e) THEN OnReadyRecv(s, e) ELSE [st |-> s, v |-> <<>>])
  ELSE CASE e.ev = "reset"         -> OnReset(s, e)
         [] e.ev = "add_fn"        -> OnAddFn(s, e)
         [] e.ev = "add_edge"      -> OnAddEdge(s, e)
         [] e.ev = "add_edges"     -> OnAddEdges(s, e)
         [] e.ev = "build"         -> OnBuild(s, e)
         [] e.ev = "eq"            -> OnEq(s, e)
         [] e.ev = "seq"           -> OnSeq(s, e)
         [] e.ev = "graph_info"    -> OnGraphInfo(s, e)
         [] e.ev = "graph_info_rt" -> OnGraphInfoRt(s, e)
         [] e.ev = "graph_info_rt2" -> OnGraphInfoRt2(s, e)
         [] e.ev = "build_timeout" -> OnBuildTimeout(s, e)
         [] e.ev \in {"gi_iter", "gi_iter_rev"} -> OnGiIter(s, e)
         [] e.ev = "call"          -> OnCall(s, e)
         [] e.ev = "start"         -> OnStart(s, e)
         [] e.ev = "end"           -> OnEnd(s, e)
         [] e.ev = "cancel"        -> OnCancel(s, e)
         [] e.ev = "signal"        -> OnSignal(s, e)
         [] e.ev = "poll"          -> OnPoll(s, e)
         [] e.ev = "return"        -> OnReturn(s, e)
         [] e.ev = "abort"         -> OnAbort(s, e)
         [] e.ev = "spoll"         -> OnSpoll(s, e)
         [] e.ev = "drop_ref"      -> OnDropRef(s, e)
         [] e.ev = "drop_stream"   -> OnAbort(s, e)
         [] e.ev = "panic"         -> OnPanic(s, e)
         [] e.ev \in {"int_activate", "int_poll_item"} /\ HasRun(s, e) -> OnIntCallback(s, e)
         [] e.ev = "fresh_begin"   -> OnFreshBegin(s, e)
         [] e.ev = "fresh_end"     -> OnFreshEnd(s, e)
         [] OTHER                  -> [st |-> s, v |-> <<>>]

---------------------------------------------------------------------------
(* Coverage flags of an event (evaluated in the state BEFORE the event).    *)
RunFlags(s, R, f) ==
  LET o == Obs(s, R) IN
     {"handout"}
  \cup (IF InFlight(o) # {} THEN {"handout_concurrent"} ELSE {})
  \cup (IF \E g \in InFlight(o) : HasPath(D.C, f, g) \/ HasPath(D.C, g, f) THEN {"handout_related_inflight"} ELSE {})
  \cup (IF s.conf THEN {"handout_conflict_graph"} ELSE {})
  \cup (IF \E a \in 1..s.n : DirBefore(D.UC, o.order, a, f) THEN {"handout_dependent"} ELSE {})
  \cup (IF R.sig \/ R.cfg.pre_signal THEN {"handout_after_signal"} ELSE {})
  \cup (IF R.failed # {} THEN {"handout_after_failure"} ELSE {})
  \cup (IF R.cfg.limit >= 1 THEN {"handout_limited"} ELSE {})
  \cup (IF o.order = "rev" THEN {"handout_reverse"} ELSE {})

Flags(s, e) ==
  IF "hook" \in DOMAIN e THEN {"hook_event"}
  ELSE CASE e.ev = "start" /\ HasRun(s, e) -> RunFlags(s, s.runs[e.run], e.f)
         [] e.ev = "spoll" /\ HasRun(s, e) ->
              LET R == s.runs[e.run] IN
              IF e.res = "item" /\ e.f # 0 THEN RunFlags(s, R, e.f) \cup {"stream_item"}
              ELSE IF e.res = "pending"
                   THEN {"spoll_pending"} \cup (IF Range(R.started) # 1..s.n THEN {"stall_check_nontrivial"} ELSE {})
                   ELSE {"stream_end"}
         [] e.ev = "drop_ref" /\ HasRun(s, e) ->
              {"drop_ref"} \cup (IF s.runs[e.run].pendingOpen THEN {"dropref_while_pending"} ELSE {})
         [] e.ev = "poll" /\ HasRun(s, e) ->
              LET R == s.runs[e.run]  o == Obs(s, R) IN
              IF e.res = "pending" /\ ~e.woken
              THEN {"idle"} \cup (IF C06_Applies(o) /\ Range(R.started) # 1..s.n THEN {"idle_eager_nontrivial"} ELSE {})
              ELSE {"poll"}
         [] e.ev = "return" /\ HasRun(s, e) ->
              LET R == s.runs[e.run]  o == Obs(s, R) IN
                 {"return"}
              \cup (IF R.failed # {} THEN {"return_failed"} ELSE {})
              \cup (IF EffectiveInterruptPossible(o) THEN {"return_interruptible"} ELSE {})
              \cup (IF Range(R.started) # 1..s.n THEN {"return_partial"} ELSE {})
              \cup (IF o.control THEN {"return_control"} ELSE {})
              \cup (IF Len(s.runs) > 1 THEN {"return_multi"} ELSE {})
         [] e.ev = "build" ->
                 {"build"}
              \cup (IF s.conf THEN {"build_conflict"} ELSE {})
              \cup (IF \E i \in DOMAIN e.edges : e.edges[i][3] = "data" THEN {"build_data_edge"} ELSE {})
              \cup (IF s.ue # <<>> THEN {"build_user_edges"} ELSE {})
              \cup (IF s.n >= 8 THEN {"build_large"} ELSE {})
         [] e.ev = "add_edge" ->
                 {"edge_call"}
              \cup (IF e.res = "cycle" THEN {"edge_cycle"} ELSE {})
              \cup (IF EdgeIndexOf(s.ue, e.a, e.b) # 0 THEN {"edge_update"} ELSE {})
         [] e.ev = "add_edges" -> {"edges_call"} \cup (IF e.res = "cycle" THEN {"edge_cycle"} ELSE {})
         [] e.ev = "eq" -> {"eq"} \cup (IF e.res THEN {"eq_equal"} ELSE {"eq_unequal"})
         [] e.ev = "seq" -> {"seq"} \cup (IF e.fail_at \in 1..s.n THEN {"seq_fail"} ELSE {})
         [] e.ev = "graph_info" -> {"graph_info"}
         [] e.ev = "fresh_end" -> {"fresh_compare"}
         [] e.ev = "signal" -> {"signal"}
         [] e.ev = "abort" -> {"abort"}
         [] e.ev = "panic" -> {"panic"}
         [] OTHER -> {}

Bump(fn, keys) ==
  [ k \in (DOMAIN fn) \cup keys |-> (IF k \in DOMAIN fn THEN fn[k] ELSE 0) + (IF k \in keys THEN 1 ELSE 0) ]

Cov0 == [ ev |-> [k \in {} |-> 0], tr |-> [k \in {} |-> 0], cur |-> {} ]

CovNext(c, s, e, last) ==
  LET fl   == Flags(s, e)
      ev2  == Bump(c.ev, fl)
      \* a reset closes the previous trace: its flags are counted once
      tr2  == IF e.ev = "reset" THEN Bump(c.tr, c.cur \cup {"traces"}) ELSE c.tr
      cur2 == IF e.ev = "reset" THEN {} ELSE c.cur \cup fl
      tr3  == IF last THEN Bump(tr2, cur2 \cup {"traces"}) ELSE tr2
  IN [ ev |-> ev2, tr |-> tr3, cur |-> cur2 ]

Report(s, line, v) ==
  \A i \in DOMAIN v :
    PrintT("VIOL " \o ToJson([p |-> v[i].p, scn |-> s.scn, line |-> line, msg |-> v[i].msg]))

Init == l = 1 /\ st = St0 /\ nviol = 0 /\ cov = Cov0 /\ TLCSet(2, D0) /\ TLCSet(3, <<>>)

Next ==
  /\ l <= Len(Rec)
  /\ (Rec[l].ev = "reset" => TLCSet(2, D0) /\ TLCSet(3, [x \in 1..Rec[l].n |-> {}]))
  /\ (Rec[l].ev = "build" /\ "hook" \notin DOMAIN Rec[l] /\ Rec[l].panic = "" => TLCSet(2, DerivedOf(st, Rec[l])))
  /\ LET r == Apply(st, Rec[l]) IN
       /\ Report(IF Rec[l].ev = "reset" THEN r.st ELSE st, l, r.v)
       /\ st' = r.st
       /\ ("ud" \in DOMAIN r => TLCSet(3, r.ud))
       /\ nviol' = nviol + Len(r.v)
  /\ cov' = CovNext(cov, st, Rec[l], l = Len(Rec))
  /\ (l = Len(Rec)) => PrintT("COV " \o ToJson([events |-> cov'.ev, traces |-> cov'.tr]))
  /\ l' = l + 1

Spec == Init /\ [][Next]_vars

(* the whole file was consumed: one state per line plus the initial state *)
Consumed ==
  /\ PrintT("CONSUMED " \o ToString(TLCGet("stats").diameter - 1) \o " OF " \o ToString(Len(Rec)))
  /\ TLCGet("stats").diameter - 1 = Len(Rec)

=============================================================================
