------------------------------ MODULE Builder ------------------------------
(***************************************************************************)
(* FnGraphBuilder::build() step by step (src/fn_graph_builder.rs:131-165):  *)
(*   RankCalc::calc          rank_calc.rs:18-52   queue-based relaxation     *)
(*   DataEdgeAugmenter       data_edge_augmenter.rs:25-89   the double loop  *)
(*   PredecessorCountCalc    in/out degree over all edges                    *)
(* Input (chosen in Init): any labelled DAG of user edges on 1..n, n <= N   *)
(* (edges in either direction, so nodes are not assumed to be numbered       *)
(* topologically), any read/write declaration over `Types`.                  *)
(* TLC checks that the algorithms (i) cannot panic, (ii) satisfy the Props   *)
(* predicates C11, C12, C13, C18, and (iii) compute exactly the functional   *)
(* twin Build!Built / Build!Ranks that every other module uses.              *)
(***************************************************************************)
EXTENDS Props, Build, TLC

CONSTANTS
  N, Types,
  Shape,         \* "all": every labelled DAG on 0..N nodes | "complete": only the complete DAG on N nodes
  ChildOrder,    \* "any": children of a node are visited in any order (design runs)
                 \* "petgraph": most recently added edge first, as petgraph's adjacency lists yield them (trace runs)
  PushRule,      \* "on_increase" (code after the fix) | "always" (as found)
  \* deliberate deviations of the augmenter
  ConflictMode,  \* "full" | "no_ww" (write/write clause dropped) | "rr" (read/read counts)
  SkipSameRank,  \* FALSE
  TieReverse,    \* FALSE  ties in the rank sort broken by descending index
  NoPathTest,    \* FALSE
  RankMin        \* FALSE  relaxation with min instead of max

VARIABLES n, ue, reads, writes,
          phase,                \* "rank" | "aug" | "done"
          queue, rank, pops,    \* RankCalc
          order, i, j, data,    \* augmenter: sorted ids, outer index, inner index, added edges
          panicked

vars == <<n, ue, reads, writes, phase, queue, rank, pops, order, i, j, data, panicked>>

UE == PairsOfSeq(ue)

Acc == [r : SUBSET Types, w : SUBSET Types]

(* labelled DAGs on 1..k: subsets of ordered pairs without 2-cycles, acyclic *)
AllPairs(k) == { p \in (1..k) \X (1..k) : p[1] # p[2] }
DagSets(k) == { S \in SUBSET AllPairs(k) : (\A p \in S : <<p[2], p[1]>> \notin S) /\ Acyclic(k, S) }

(* edges inserted in ascending (a, b) order, all of kind logic: the kind plays no part in build() *)
SeqOf(S) ==
  LET F[T \in SUBSET S] ==
        IF T = {} THEN <<>>
        ELSE LET m == CHOOSE x \in T : \A y \in T : x[1] < y[1] \/ (x[1] = y[1] /\ x[2] <= y[2])
             IN  <<<<m[1], m[2], "logic">>>> \o F[T \ {m}]
  IN F[S]

Perms(S) == { p \in [1..Cardinality(S) -> S] : \A a, b \in DOMAIN p : a # b => p[a] # p[b] }

(* children of v in the order graph.children(v) yields them: reverse order of insertion of the edges *)
KidSeq(v) ==
  LET F[k \in 0..Len(ue)] == IF k = 0 THEN <<>>
                             ELSE LET p == F[k-1] IN IF ue[k][1] = v THEN <<ue[k][2]>> \o p ELSE p
  IN F[Len(ue)]
KidOrders(v) == IF ChildOrder = "any" THEN Perms(Succs(PairsOfSeq(ue), v)) ELSE {KidSeq(v)}

Roots(k, S) == { f \in 1..k : Preds(S, f) = {} }

Init ==
  /\ IF Shape = "complete"
     THEN /\ n = N
          /\ ue = SeqOf({ p \in (1..N) \X (1..N) : p[1] < p[2] })
          /\ reads = [f \in 1..n |-> {}] /\ writes = [f \in 1..n |-> {}]
     ELSE /\ n \in 0..N
          /\ \E S \in DagSets(n) : ue = SeqOf(S)
          /\ \E acc \in [1..n -> Acc] : reads = [f \in 1..n |-> acc[f].r] /\ writes = [f \in 1..n |-> acc[f].w]
  /\ phase = "rank"
  /\ queue = Ascending(n, Roots(n, UE))       \* node_references() order
  /\ rank = [f \in 1..n |-> 0]
  /\ pops = 0
  /\ order = <<>> /\ i = 0 /\ j = 0 /\ data = <<>>
  /\ panicked = FALSE

---------------------------------------------------------------------------
(* while let Some(fn_id) = fn_ids.pop_front() { for each child ... }         *)
RankPop ==
  /\ phase = "rank" /\ queue # <<>>
  /\ LET v == Head(queue)  kids == Succs(UE, v) IN
     \E p \in KidOrders(v) :                  \* children are visited in adjacency-list order
       LET new == [c \in 1..n |-> IF c \in kids
                                  THEN (IF RankMin /\ rank[c] > 0 THEN Min(rank[c], rank[v] + 1)
                                        ELSE Max(rank[c], rank[v] + 1))
                                  ELSE rank[c]]
           push == SelectSeq(p, LAMBDA c : PushRule = "always" \/ rank[v] + 1 > rank[c])
       IN /\ rank' = new
          /\ queue' = Tail(queue) \o push
          /\ pops' = pops + 1
  /\ UNCHANGED <<n, ue, reads, writes, phase, order, i, j, data, panicked>>

SortOrder ==
  IF TieReverse
  THEN LET F[k \in 0..n] ==
             IF k = 0 THEN <<>>
             ELSE LET p == F[k-1]  rest == (1..n) \ Range(p)
                      m == CHOOSE x \in rest : \A y \in rest : x = y \/ rank[x] < rank[y] \/ (rank[x] = rank[y] /\ x > y)
                  IN Append(p, m)
       IN F[n]
  ELSE RankOrder(n, rank)

RankDone ==
  /\ phase = "rank" /\ queue = <<>>
  /\ phase' = "aug"
  /\ order' = SortOrder
  /\ i' = n /\ j' = n + 1          \* outer index from the last position; inner exhausted -> next outer
  /\ UNCHANGED <<n, ue, reads, writes, queue, rank, pops, data, panicked>>

ConflictM(a, b) ==
  CASE ConflictMode = "full"  -> Conflict(reads, writes, a, b)
    [] ConflictMode = "no_ww" -> reads[a] \cap writes[b] # {} \/ writes[a] \cap reads[b] # {}
    [] ConflictMode = "rr"    -> Conflict(reads, writes, a, b) \/ reads[a] \cap reads[b] # {}

(* one (current, next) pair of the double loop *)
AugStep ==
  /\ phase = "aug" /\ i >= 1 /\ j <= n
  /\ LET cur == order[i]  nxt == order[j]
         Ecur == UE \cup PairsOfSeq(data)
         connected == ~NoPathTest /\ nxt \in ReachFrom(n, Ecur, cur)
         skip == SkipSameRank /\ rank[cur] = rank[nxt]
         add == ~connected /\ ~skip /\ ConflictM(cur, nxt)
     IN
     /\ data' = IF add THEN Append(data, <<cur, nxt, "data">>) ELSE data
        \* update_edge(...).expect(...): panics if the edge would close a cycle
     /\ panicked' = (panicked \/ (add /\ cur \in ReachFrom(n, Ecur, nxt)))
     /\ j' = j + 1
  /\ UNCHANGED <<n, ue, reads, writes, phase, queue, rank, pops, order, i>>

AugNextOuter ==
  /\ phase = "aug" /\ j > n /\ i >= 1
  /\ IF i = 1 THEN phase' = "done" /\ UNCHANGED <<i, j>>
     ELSE /\ i' = i - 1 /\ j' = i /\ UNCHANGED phase     \* fn_ids[index..] minus the node itself
  /\ UNCHANGED <<n, ue, reads, writes, queue, rank, pops, order, data, panicked>>

AugEmpty ==
  /\ phase = "aug" /\ n = 0 /\ phase' = "done"
  /\ UNCHANGED <<n, ue, reads, writes, queue, rank, pops, order, i, j, data, panicked>>

Next == RankPop \/ RankDone \/ AugStep \/ AugNextOuter \/ AugEmpty

Spec == Init /\ [][Next]_vars

---------------------------------------------------------------------------
built == ue \o data
BE == PairsOfSeq(built)

TypeOK == /\ phase \in {"rank", "aug", "done"}
          /\ \A f \in 1..n : rank[f] \in 0..n

Inv_NoPanic == ~panicked
Inv_C18 == C18_PopBound(n, pops)
Inv_C13 == phase # "rank" => C13_Ranks(n, rank, ue)
Inv_Twin == phase = "done" => built = Built(n, ue, reads, writes)
Inv_C11 == phase = "done" =>
             LET CC == Reach(n, BE) IN
             /\ \A a \in 1..n : ~HasPath(CC, a, a)
             /\ C11_KeepsUserEdges(built, ue)
             /\ C11_DataOnlyBetweenConflicting(built, reads, writes)
             /\ C01_ConflictOrdered(n, reads, writes, CC)
             /\ C06_DataOnlyForConflict(built, ue, reads, writes)
Inv_C12 == phase = "done" =>
             /\ C12_Direction(n, reads, writes, Reach(n, UE), Reach(n, BE), Ranks(n, ue))
             /\ C12_NoRedundantData(n, built)
(* every edge, user or added, goes forward in the rank order: the reason no update_edge can fail *)
Inv_Forward == phase \in {"aug", "done"} =>
                 \A e \in BE : Pos(order, e[1]) < Pos(order, e[2])

=============================================================================
