-------------------------------- MODULE Run --------------------------------
(***************************************************************************)
(* One join-based streaming call of fn_graph: fold_async*, try_fold_async*, *)
(* for_each_concurrent*, try_for_each_concurrent* (src/fn_graph.rs).        *)
(*                                                                          *)
(* Two futures joined in one task share two bounded channels:               *)
(*   queuer    (fn_ready_queuer / queuer_stream_fold, 2103-2166): receives  *)
(*             done ids, decrements successor counts, queues those at 0     *)
(*   scheduler (the eight *_internal bodies): pulls ready ids through the   *)
(*             (interruptible) ready stream, runs the user future, sends    *)
(*             the id into done, closes the done sender when finished /     *)
(*             interrupted / failed                                         *)
(* One action per critical section of the code; the environment (which user *)
(* future becomes ready, which fails, when the interrupt is sent) is        *)
(* separate, independently enabled actions so that TLC explores every race. *)
(*                                                                          *)
(* The graph is the BUILT graph (all edge kinds): nodes 1..n, n <= N, any   *)
(* DAG (edges i -> j with i < j; the scheduler never looks at ids, so this  *)
(* covers all shapes), chosen in Init.                                      *)
(***************************************************************************)
EXTENDS Props, IStream, TLC, Json

CONSTANTS
  N,          \* maximum number of functions
  Api,        \* "fold" | "try_fold" | "for_each" | "try_for_each"
  Control,    \* try_for_each: control-flow flavour
  Order,      \* "fwd" | "rev"
  Limit,      \* 0 (None or Some(0): unlimited) | k
  Strategy,   \* "none" | "non" | "ignore" | "finish" | "poll_n"
  K,          \* PollNextN parameter
  Include,    \* interrupted_next_item_include
  PreSig,     \* the signal is already in the channel when the call begins
  MaxFail,    \* how many functions the environment may fail
  EnvMode,    \* "quiescent": environment acts only when no internal step is enabled
              \* "async":     environment steps interleave with every internal step
  SignalInside, \* a completing user future may send the interrupt signal itself (a signal in the middle of a poll)
  \* ---- deliberate deviations ("as found" / mutants); the values of the code are given in the comment
  ReleaseAt,      \* 0     release a successor when its count reaches exactly 0
  DoneAtStart,    \* FALSE send done when the user future starts instead of when it returns
  RevIncoming,    \* FALSE reverse order initialises counts from incoming edges
  Cap,            \* 0     channel capacity (0 = max(1, n))
  EmptyRelease,   \* TRUE  empty graph: the done sender is released before streaming
  DropOnInterrupt,\* TRUE  an interrupted item drops the done sender
  DropOnError,    \* TRUE  a failed function drops the done sender
  ResultCap,      \* 0     capacity of the result channel (0 = max(1, n))
  OneRelease,     \* FALSE the queuer releases at most one successor per done id
  IgnoreLimit     \* FALSE the limit is not forwarded

VARIABLES
  n, E, C,        \* the graph (constant after Init): size, edges, reachability map
  cnt,            \* predecessor_counts
  readyQ, readyTx,\* ready channel buffer; the queuer still holds its sender
  doneQ, doneTx,  \* done channel buffer; the scheduler still holds its sender
  qRem, qDone,    \* queuer: fns_remaining; finished
  sRem,           \* scheduler: fns_remaining
  processed,      \* fn_ids_processed
  is,             \* InterruptibleStream state
  intRun,         \* function handed out as Interrupted(Some f) and still running (0 = none)
  pulled,         \* for_each bodies: items the ready stream has returned whose item future has not had its
                  \* first poll yet (pushed into FuturesUnordered): sequence of [f |-> function or 0, int |-> BOOLEAN]
  running,        \* user futures started and not returned
  open,           \* running futures the environment has made ready: f :> [ok, sig]
                  \*   sig = the function sends the interrupt signal itself as it returns (mid-poll signal)
  started, ended, failed, errors,   \* observation: hand-outs in order, returned, failed, result channel
  sigChan, sigSent, afterSig,
  pullsAfterSig,  \* functions handed out by the ready stream after the signal was sent
  sEnded, sDone, foldErr, returned, outcome, panicked,
  hist            \* environment steps so far (scenario output only; hidden by VIEW in exhaustive runs)

vars == <<n, E, C, cnt, readyQ, readyTx, doneQ, doneTx, qRem, qDone, sRem, processed, is, intRun, pulled,
          running, open, started, ended, failed, errors, sigChan, sigSent, afterSig, pullsAfterSig,
          sEnded, sDone, foldErr, returned, outcome, panicked, hist>>

(* everything but the history *)
View == <<n, E, cnt, readyQ, readyTx, doneQ, doneTx, qRem, qDone, sRem, processed, is, intRun, pulled,
          running, open, started, ended, failed, errors, sigChan, sigSent, afterSig, pullsAfterSig,
          sEnded, sDone, foldErr, returned, outcome, panicked>>

IsFoldApi == Api \in {"fold", "try_fold"}
IsTryApi  == Api \in {"try_fold", "try_for_each"}
Children(f) == IF Order = "fwd" THEN Succs(E, f) ELSE Preds(E, f)
Parents(f)  == IF Order = "fwd" THEN Preds(E, f) ELSE Succs(E, f)
Capacity    == IF Cap = 0 THEN Max(1, n) ELSE Cap
ResCapacity == IF ResultCap = 0 THEN Max(1, n) ELSE ResultCap

SetToSeqPairs == LET F[S \in SUBSET E] == IF S = {} THEN <<>>
                                 ELSE LET m == CHOOSE x \in S : \A y \in S : x[1] < y[1] \/ (x[1] = y[1] /\ x[2] <= y[2])
                                      IN <<m>> \o F[S \ {m}]
                 IN F[E]

Perms(S) == { p \in [1..Cardinality(S) -> S] : \A i, j \in DOMAIN p : i # j => p[i] # p[j] }

(* try_send of a sequence of ids: those that do not fit are dropped *)
TrySendAll(q, ids) ==
  LET F[i \in 0..Len(ids)] ==
        IF i = 0 THEN q
        ELSE LET p == F[i-1] IN IF Len(p) < Capacity THEN Append(p, ids[i]) ELSE p
  IN F[Len(ids)]

AllDags(k) == SUBSET { <<a, b>> \in (1..k) \X (1..k) : a < b }

Init ==
  /\ n \in 0..N
  /\ E \in AllDags(n)
  /\ C = Reach(n, E)
  /\ cnt = [f \in 1..n |->
              IF Order = "fwd" \/ RevIncoming THEN Cardinality(Preds(E, f)) ELSE Cardinality(Succs(E, f))]
  \* stream_setup_init: all roots preloaded (order abstracted: any permutation)
  /\ \E p \in Perms({ f \in 1..n : cnt[f] = 0 }) : readyQ = TrySendAll(<<>>, p)
  /\ readyTx = (n > 0)                     \* fn_ready_queuer: taken at once for the empty graph
  /\ doneQ = <<>>
  /\ doneTx = (n > 0 \/ ~EmptyRelease)
  /\ qRem = n /\ qDone = FALSE /\ sRem = n
  /\ processed = <<>> /\ is = IS0 /\ intRun = 0 /\ pulled = <<>>
  /\ running = {} /\ open = <<>>
  /\ started = <<>> /\ ended = {} /\ failed = {} /\ errors = <<>>
  /\ sigChan = (PreSig /\ HasChannel(Strategy)) /\ sigSent = FALSE /\ afterSig = 0 /\ pullsAfterSig = 0
  /\ sEnded = FALSE /\ sDone = FALSE /\ foldErr = 0 /\ returned = FALSE
  /\ outcome = [state |-> "", processed |-> <<>>, notProcessed |-> <<>>, kind |-> ""]
  /\ panicked = FALSE
  /\ hist = <<>>

---------------------------------------------------------------------------
(* queuer                                                                   *)

(* one iteration of queuer_stream_fold's closure (2131-2163) *)
QRecv ==
  /\ ~qDone /\ doneQ # <<>>
  /\ LET f    == Head(doneQ)
         rem  == qRem - 1
         tx   == readyTx /\ rem > 0
         kids == Children(f)
         cnt2 == [c \in 1..n |-> IF c \in kids THEN cnt[c] - 1 ELSE cnt[c]]
         rel  == { c \in kids : IF ReleaseAt = 0 THEN cnt2[c] = 0 ELSE cnt2[c] <= ReleaseAt /\ cnt2[c] >= 0 }
     IN
     /\ doneQ' = Tail(doneQ)
     /\ qRem' = rem
     /\ readyTx' = tx
     /\ cnt' = cnt2
     /\ IF tx
        THEN \E p \in Perms(rel) :
               readyQ' = TrySendAll(readyQ, IF OneRelease /\ Len(p) > 1 THEN <<p[1]>> ELSE p)
        ELSE readyQ' = readyQ
  /\ UNCHANGED <<n, E, C, doneTx, qDone, sRem, processed, is, intRun, pulled, running, open, started, ended, failed,
                 errors, sigChan, sigSent, afterSig, pullsAfterSig, sEnded, sDone, foldErr, returned, outcome, panicked, hist>>

(* the done channel is closed and empty: the queuer finishes and drops its ready sender *)
QEnd ==
  /\ ~qDone /\ doneQ = <<>> /\ ~doneTx
  /\ qDone' = TRUE /\ readyTx' = FALSE
  /\ UNCHANGED <<n, E, C, cnt, readyQ, doneQ, doneTx, qRem, sRem, processed, is, intRun, pulled, running, open, started,
                 ended, failed, errors, sigChan, sigSent, afterSig, pullsAfterSig, sEnded, sDone, foldErr, returned, outcome, panicked, hist>>

---------------------------------------------------------------------------
(* scheduler                                                                *)

(* futures' for_each_concurrent counts every pushed item future, polled or not *)
SlotFree ==
  IF IsFoldApi THEN running = {}
  ELSE IgnoreLimit \/ Limit <= 0 \/ Cardinality(running) + Len(pulled) < Limit

Inner == IF readyQ # <<>> THEN "item" ELSE IF readyTx THEN "pending" ELSE "end"

(* done send + fns_remaining bookkeeping after a function (383-401, 727-735, 1506-1524) *)
AfterFn(f, tx) ==
  /\ doneQ' = IF tx /\ ~DoneAtStart THEN Append(doneQ, f) ELSE doneQ
  /\ sRem' = sRem - 1
  /\ doneTx' = (tx /\ sRem - 1 > 0 /\ ~(f = intRun /\ DropOnInterrupt))

(* the user closure is invoked for an item: fold -- in the same step as the pull; for_each -- at the first   *)
(* poll of the item future                                                                                  *)
Begin(f, int) ==
  IF f # 0
  THEN /\ started' = Append(started, f)
       /\ running' = running \cup {f}
       /\ afterSig' = IF sigSent THEN afterSig + 1 ELSE afterSig
       /\ intRun' = IF int THEN f ELSE intRun
       /\ doneQ' = IF DoneAtStart /\ doneTx THEN Append(doneQ, f) ELSE doneQ
       /\ doneTx' = doneTx
  ELSE /\ UNCHANGED <<started, running, afterSig, intRun, doneQ>>
       \* Interrupted(None) (or an excluded item): fn_done_tx_drop_if_interrupted
       /\ doneTx' = (doneTx /\ ~(int /\ DropOnInterrupt))

(* One poll_next of the wrapped ready stream.                                                            *)
(*   fold / try_fold: the fold closure runs in the same loop iteration, so the user closure is invoked   *)
(*     here (nothing else can run in between).                                                            *)
(*   for_each_concurrent: the item future is only PUSHED here; FuturesUnordered gives it its first poll   *)
(*     later in the same poll of the call -- possibly after other in-flight futures were polled (it       *)
(*     returns after each completion and the combinator pulls again first).  Hence `pulled` and SStart.   *)
SPull ==
  /\ ~sEnded /\ ~sDone /\ SlotFree
  /\ LET r == PollIS(Strategy, K, is, Inner, sigChan)
         f == IF readyQ # <<>> THEN Head(readyQ) ELSE 0
         gotItem == r.polled /\ Inner = "item"            \* the inner stream handed over f
         handed  == r.out = "item" \/ (r.out = "int_item" /\ Include)
         interrupted == r.out \in {"int_item", "int_none"}
         isItem == r.out \in {"item", "int_item", "int_none"}
     IN
     /\ (r.out = "pending" => r.is # is \/ r.recv)          \* a Pending poll that changes nothing is no step
     /\ is' = r.is
     /\ sigChan' = (sigChan /\ ~r.recv)
     /\ readyQ' = IF gotItem THEN Tail(readyQ) ELSE readyQ
     /\ processed' = IF gotItem /\ (Include \/ r.out = "item") THEN Append(processed, f) ELSE processed
     /\ pullsAfterSig' = IF handed /\ sigSent THEN pullsAfterSig + 1 ELSE pullsAfterSig
     /\ sEnded' = (r.out = "end")
     /\ IF ~isItem
        THEN UNCHANGED <<started, running, afterSig, intRun, doneQ, doneTx, pulled>>
        ELSE IF IsFoldApi
             THEN Begin(IF handed THEN f ELSE 0, interrupted) /\ UNCHANGED pulled
             ELSE /\ pulled' = Append(pulled, [f |-> IF handed THEN f ELSE 0, int |-> interrupted])
                  /\ UNCHANGED <<started, running, afterSig, intRun, doneQ, doneTx>>
  /\ UNCHANGED <<n, E, C, cnt, readyTx, qRem, qDone, sRem, open, ended, failed, errors, sigSent,
                 sDone, foldErr, returned, outcome, panicked, hist>>

(* first poll of the oldest pushed item future: the user closure is invoked *)
SStart ==
  /\ pulled # <<>> /\ ~sDone
  /\ Begin(Head(pulled).f, Head(pulled).int)
  /\ pulled' = Tail(pulled)
  /\ UNCHANGED <<n, E, C, cnt, readyQ, readyTx, qRem, qDone, sRem, processed, is, open, ended, failed, errors, sigChan,
                 sigSent, pullsAfterSig, sEnded, sDone, foldErr, returned, outcome, panicked, hist>>

(* the user future of f returns (ok or failing) inside a poll; the rest of the item future runs without      *)
(* suspending.  sig: the function sends the interrupt signal itself just before it returns.                  *)
SFinishCore(f, ok, sig) ==
  /\ f \in running
  /\ running' = running \ {f}
  /\ ended' = ended \cup {f}
  /\ intRun' = IF f = intRun THEN 0 ELSE intRun
  /\ sigSent' = (sigSent \/ sig)
  /\ sigChan' = (sigChan \/ (sig /\ ~sigSent))
  /\ IF ok
     THEN /\ AfterFn(f, doneTx)
          /\ UNCHANGED <<failed, errors, sDone, foldErr>>
     ELSE /\ failed' = failed \cup {f}
          /\ IF Api = "try_fold"
             THEN \* `?`: the fold ends with the error, its state (incl. the done sender) is dropped
                  /\ sDone' = TRUE /\ foldErr' = f /\ doneTx' = FALSE
                  /\ UNCHANGED <<errors, doneQ, sRem>>
             ELSE \* result_tx.send(e).await blocks while the result channel is full
                  /\ Len(errors) < ResCapacity
                  /\ errors' = Append(errors, f)
                  /\ AfterFn(f, doneTx /\ ~DropOnError)
                  /\ UNCHANGED <<sDone, foldErr>>
  /\ UNCHANGED <<n, E, C, cnt, readyQ, readyTx, qRem, qDone, processed, is, pulled, started, afterSig, pullsAfterSig,
                 sEnded, returned, outcome, panicked, hist>>

SFinish(f) ==
  /\ f \in DOMAIN open
  /\ SFinishCore(f, open[f].ok, open[f].sig)
  /\ open' = [g \in (DOMAIN open) \ {f} |-> open[g]]

(* ready stream exhausted and nothing in flight: fold / for_each_concurrent complete *)
SEnd ==
  /\ sEnded /\ ~sDone /\ running = {} /\ pulled = <<>>
  /\ sDone' = TRUE
  /\ UNCHANGED <<n, E, C, cnt, readyQ, readyTx, doneQ, doneTx, qRem, qDone, sRem, processed, is, intRun, pulled, running, open,
                 started, ended, failed, errors, sigChan, sigSent, afterSig, pullsAfterSig, sEnded, foldErr, returned, outcome,
                 panicked, hist>>

(* join!(queuer, scheduler) completes; StreamOutcome::new; result channel drained; control mapping *)
Return ==
  /\ qDone /\ sDone /\ ~returned
  /\ returned' = TRUE
  /\ LET st == IF sRem = 0 THEN "finished" ELSE "interrupted"
         kind == IF foldErr # 0 THEN "fold_err"
                 ELSE IF Api = "try_for_each"
                      THEN (IF Control
                            THEN (IF errors # <<>> \/ st # "finished" THEN "break" ELSE "continue")
                            ELSE (IF errors # <<>> THEN "err" ELSE "ok"))
                      ELSE IF Api = "try_fold" THEN "ok" ELSE "outcome"
     IN outcome' = [state |-> st, processed |-> processed,
                    notProcessed |-> Ascending(n, (1..n) \ Range(processed)), kind |-> kind]
  /\ UNCHANGED <<n, E, C, cnt, readyQ, readyTx, doneQ, doneTx, qRem, qDone, sRem, processed, is, intRun, pulled, running, open,
                 started, ended, failed, errors, sigChan, sigSent, afterSig, pullsAfterSig, sEnded, sDone, foldErr, panicked, hist>>

Internal == QRecv \/ QEnd \/ SPull \/ SStart \/ SEnd \/ Return \/ \E f \in 1..N : SFinish(f)

---------------------------------------------------------------------------
(* environment                                                              *)

FailBudget == Cardinality(failed) + Cardinality({ f \in DOMAIN open : ~open[f].ok }) < MaxFail

(* a user future becomes ready; with sig it will also send the interrupt signal as it returns *)
EnvOpen(f, ok, sig) ==
  /\ f \in running /\ f \notin DOMAIN open
  /\ ok \/ (IsTryApi /\ FailBudget)
  /\ sig => /\ SignalInside /\ HasChannel(Strategy) /\ ~sigSent /\ ~PreSig
            /\ \A g \in DOMAIN open : ~open[g].sig
  /\ open' = [g \in (DOMAIN open) \cup {f} |-> IF g = f THEN [ok |-> ok, sig |-> sig] ELSE open[g]]
  /\ hist' = Append(hist, [op |-> "open", f |-> f, ok |-> ok, signal |-> sig])
  /\ UNCHANGED <<n, E, C, cnt, readyQ, readyTx, doneQ, doneTx, qRem, qDone, sRem, processed, is, intRun, pulled, running,
                 started, ended, failed, errors, sigChan, sigSent, afterSig, pullsAfterSig, sEnded, sDone, foldErr, returned,
                 outcome, panicked>>

EnvSignal ==
  /\ HasChannel(Strategy) /\ ~sigSent /\ ~PreSig /\ ~returned
  /\ \A g \in DOMAIN open : ~open[g].sig
  /\ sigSent' = TRUE /\ sigChan' = TRUE
  /\ hist' = Append(hist, [op |-> "signal", f |-> 0, ok |-> TRUE, signal |-> FALSE])
  /\ UNCHANGED <<n, E, C, cnt, readyQ, readyTx, doneQ, doneTx, qRem, qDone, sRem, processed, is, intRun, pulled, running, open,
                 started, ended, failed, errors, afterSig, pullsAfterSig, sEnded, sDone, foldErr, returned, outcome, panicked>>

Env == EnvSignal \/ \E f \in 1..N, ok \in BOOLEAN, sig \in BOOLEAN : EnvOpen(f, ok, sig)

Idle == ~ENABLED Internal

Next ==
  \/ Internal
  \/ (EnvMode = "async" \/ Idle) /\ Env

Spec == Init /\ [][Next]_vars

(* liveness: the scheduler and queuer keep running, user futures eventually become ready *)
Fairness ==
  /\ WF_vars(Internal)
  /\ \A f \in 1..N : WF_vars(EnvOpen(f, TRUE, FALSE))
LiveSpec == Spec /\ Fairness
Termination == <>returned

---------------------------------------------------------------------------
(* refinement mapping into Props                                            *)
Ob == [ n |-> n, api |-> Api, control |-> Control, order |-> Order, limit |-> Limit, strategy |-> Strategy, k |-> K,
        include |-> Include, preSig |-> PreSig /\ HasChannel(Strategy), started |-> started, ended |-> ended,
        failed |-> failed, sig |-> sigSent, afterSig |-> afterSig, aborted |-> FALSE ]

TypeOK ==
  /\ running \subseteq 1..n /\ ended \subseteq 1..n /\ Range(readyQ) \subseteq 1..n /\ Range(doneQ) \subseteq 1..n
  /\ \A f \in 1..n : cnt[f] \in 0..n
  /\ Len(readyQ) <= Capacity /\ Len(doneQ) <= Capacity

Inv_C01 == C01_PathExclusion(C, running)
Inv_C02 == \A i \in DOMAIN started : C02_HandOut(n, C, Order, started[i], ended)
Inv_C03 == NoDup(started) /\ (returned => C03_AtEnd(Ob))
Inv_C04 == /\ C04_NoDeadlock(Idle, returned, running \ DOMAIN open)   \* in flight and not yet made ready
           /\ (returned => C04_ReturnClean(running) /\ pulled = <<>>)
           /\ ~panicked
Inv_C06 == (Idle /\ ~returned /\ C06_Applies(Ob)) => C06_Eager(n, E, Order, Range(started), ended)
Inv_C07 == /\ \A i \in DOMAIN started : C07_HandOut(C, Order, started[i], failed)
           /\ (Api = "try_fold" /\ failed # {} => started[Len(started)] \in failed /\ Cardinality(failed) = 1)
           /\ (returned /\ Api = "try_for_each" =>
                 /\ C07_ErrorsExact(errors, failed)
                 /\ (outcome.kind \in {"ok", "continue"} => failed = {}))
           /\ (returned /\ Api = "try_fold" =>
                 C07_FoldResult(outcome.kind = "fold_err", foldErr, IF failed = {} THEN <<>> ELSE <<foldErr>>))
(* The bound as the design guarantees it: on functions HANDED OUT by the ready stream after the signal. *)
ObPull == [Ob EXCEPT !.afterSig = pullsAfterSig]
Inv_C08 == /\ C08_AfterSignal(ObPull) /\ C08_PreSignal(Ob)
           /\ (returned /\ foldErr = 0 => C08_StartedProcessed(started, processed, running))
(* The bound as the property states it: on functions STARTED after the signal.  It holds for the fold bodies *)
(* and whenever the signal is sent between polls of the call; it FAILS for the for_each bodies when the      *)
(* signal is sent in the middle of a poll (SignalInside, or EnvMode = "async"): an item pulled before the    *)
(* signal gets its first poll after it.  This is the known finding recorded for C08 (DESIGN 14.6).           *)
Inv_C08_Starts == C08_AfterSignal(Ob)
Inv_C09 == (returned /\ foldErr = 0) =>
             /\ C09_Processed(outcome.processed, started)
             /\ C09_NotProcessed(n, outcome.notProcessed, started)
             /\ C09_State(n, outcome.state, started)
             /\ (Control => C09_Control(outcome.kind, outcome.state, failed))
Inv_C10 == C10_HandOut(Ob, running) /\ (~IsFoldApi /\ ~IgnoreLimit /\ Limit >= 1 => Cardinality(running) + Len(pulled) <= Limit)

(* spec -> impl: one line per completed behaviour, replayed on the real code by the harness *)
ScenarioOut ==
  returned => PrintT("REPLAY " \o ToJson(
      [ n |-> n, edges |-> SetToSeqPairs, api |-> Api, control |-> Control, order |-> Order, limit |-> Limit,
        strategy |-> Strategy, k |-> K, include |-> Include, pre_signal |-> PreSig /\ HasChannel(Strategy),
        steps |-> hist, started |-> started, kind |-> outcome.kind, state |-> outcome.state ]))

AllInv == TypeOK /\ Inv_C01 /\ Inv_C02 /\ Inv_C03 /\ Inv_C04 /\ Inv_C06 /\ Inv_C07 /\ Inv_C08 /\ Inv_C09 /\ Inv_C10

=============================================================================
