SPECIFICATION Spec
CONSTANTS
  MaxK = 3
  MaxItems = 6
INVARIANTS Inv_C08 Inv_EndsAfterInterrupt Inv_Transparent Inv_IntItemOnlyFinish Inv_Callbacks
CHECK_DEADLOCK FALSE
