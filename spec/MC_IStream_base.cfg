SPECIFICATION Spec
CONSTANTS
  MaxK = 3
  MaxItems = 6
INVARIANTS Inv_C08 Inv_EndsAfterInterrupt Inv_Transparent Inv_IntItemOnlyFinish
CHECK_DEADLOCK FALSE
