------------------------------- MODULE Graph -------------------------------
(***************************************************************************)
(* Shared vocabulary: graphs over nodes 1..n (insertion order = FnId + 1), *)
(* edges as <<from, to, kind>> triples or <<from, to>> pairs, data access   *)
(* declarations, conflicts, reachability, ranks, topological orders.        *)
(*                                                                          *)
(* Everything here is a constant-level operator so that the design models,  *)
(* the property definitions (Props) and the trace specifications share one   *)
(* meaning for "path", "conflict", "rank" and "topological".                *)
(***************************************************************************)
EXTENDS Naturals, Sequences, FiniteSets

Kinds == {"logic", "contains", "data"}

Range(s) == { s[i] : i \in DOMAIN s }

Max(a, b) == IF a >= b THEN a ELSE b
Min(a, b) == IF a <= b THEN a ELSE b

(* Pairs <<a,b>> of a sequence (or set) of triples / pairs *)
PairsOfSeq(es) == { <<es[i][1], es[i][2]>> : i \in DOMAIN es }
Rev(E) == { <<e[2], e[1]>> : e \in E }

Succs(E, a) == { e[2] : e \in { x \in E : x[1] = a } }
Preds(E, b) == { e[1] : e \in { x \in E : x[2] = b } }

(***************************************************************************)
(* Transitive closure of a set of pairs over 1..n, as a set of pairs,       *)
(* computed per source node by breadth-first expansion. The levels are a    *)
(* recursive FUNCTION so that TLC caches each level (a recursive operator   *)
(* re-evaluates its lazy arguments and was ~100x slower in measurements).   *)
(***************************************************************************)
ReachFrom(n, E, a) ==
  IF n = 0 THEN {}
  ELSE LET R[k \in 1..n] ==
             IF k = 1 THEN Succs(E, a)
             ELSE LET prev == R[k-1]                   \* referenced once: TLC does not memoise R
                  IN  prev \cup UNION { Succs(E, x) : x \in prev }
       IN  R[n]

(* all pairs, by repeated squaring: ceil(log2 n) levels instead of n *)
Compose(R, S) == UNION { { <<p[1], q[2]>> : q \in { x \in S : x[1] = p[2] } } : p \in R }
Log2Ceil(n) == CHOOSE k \in 0..n : 2^k >= n /\ (k = 0 \/ 2^(k-1) < n)
Closure(n, E) ==
  IF n = 0 \/ E = {} THEN {}
  ELSE LET F[k \in 0..Log2Ceil(n)] == IF k = 0 THEN E ELSE LET p == F[k-1] IN p \cup Compose(p, p)
       IN  F[Log2Ceil(n)]

(* cheaper: for subsets of 1..n *)
Ascending(n, S) ==
  LET F[k \in 0..n] == IF k = 0 THEN <<>>
                       ELSE IF k \in S THEN Append(F[k-1], k) ELSE F[k-1]
  IN F[n]


(***************************************************************************)
(* For larger graphs: Kahn levels decide acyclicity, and for a DAG the      *)
(* descendants are computed in one pass over a topological order            *)
(* (children first), which is linear in the size of the result.             *)
(***************************************************************************)
KahnOrder(n, E) ==       \* a sequence of the nodes that can be removed source-first; all n of them iff E is acyclic
  LET PMap == [f \in 1..n |-> Preds(E, f)]         \* computed once
      F[k \in 0..n] ==
        IF k = 0 THEN <<>>
        ELSE LET p == F[k-1]  done == Range(p)
                 nxt == IF Len(p) = n THEN {} ELSE { f \in (1..n) \ done : PMap[f] \subseteq done }
             IN  IF nxt = {} THEN p ELSE p \o Ascending(n, nxt)
  IN F[n]

IsDag(n, E) == Len(KahnOrder(n, E)) = n

(* descendants of every node of a DAG, given a source-first order of all its nodes *)
DescMap(n, E, order) ==
  LET F[k \in 0..n] ==
        IF k = 0 THEN [f \in {} |-> {}]
        ELSE LET prev == F[k-1]
                 f    == order[n + 1 - k]
                 kids == Succs(E, f)
                 d    == kids \cup UNION { prev[c] : c \in kids }
             IN  [g \in (DOMAIN prev) \cup {f} |-> IF g = f THEN d ELSE prev[g]]
  IN F[n]

(***************************************************************************)
(* REACHABILITY MAPS.  Everywhere else "the closure" of an edge set is a    *)
(* function  node |-> set of nodes reachable from it by one or more edges   *)
(* (membership in a small set, instead of searching a large set of pairs).  *)
(***************************************************************************)
Reach(n, E) == [a \in 1..n |-> ReachFrom(n, E, a)]
(* the cheap way when E is a DAG *)
ReachAny(n, E) == IF n > 12 /\ IsDag(n, E) THEN DescMap(n, E, KahnOrder(n, E)) ELSE Reach(n, E)

HasPath(R, a, b) == b \in R[a]

Acyclic(n, E) == \A a \in 1..n : a \notin ReachFrom(n, E, a)

(***************************************************************************)
(* Data access: reads / writes are sequences (indexed by node) of sets of   *)
(* data types.                                                               *)
(***************************************************************************)
Conflict(reads, writes, a, b) ==
  \/ writes[a] \cap (reads[b] \cup writes[b]) # {}
  \/ reads[a] \cap writes[b] # {}

ConflictPairs(n, reads, writes) ==
  LET A == { f \in 1..n : writes[f] # {} \/ reads[f] # {} }     \* only functions that declare something can conflict
  IN  { p \in A \X A : p[1] # p[2] /\ Conflict(reads, writes, p[1], p[2]) }

(***************************************************************************)
(* Ranks: number of edges on the longest chain of (user) edges ending at a  *)
(* node. Defined by levels: rank >= k iff some predecessor has rank >= k-1. *)
(***************************************************************************)
LongestChainLevels(n, E) ==
  LET SM == [a \in 1..n |-> { b \in 1..n : <<a, b>> \in E }]
      \* levels as one explicit sequence, so that each is computed once:
      \* L[k+1] = nodes with a chain of >= k edges ending there = successors of L[k]
      Lv[k \in 0..n] == IF k = 0 THEN <<1..n>>
                        ELSE LET p == Lv[k-1] IN
                             Append(p, UNION { SM[a] : a \in p[k] })
      L == Lv[n]
  IN  [ f \in 1..n |-> CHOOSE k \in 0..n : f \in L[k+1] /\ (k = n \/ f \notin L[k+2]) ]

(* the same for an acyclic E, in one pass over a source-first order: 0 without predecessors, otherwise one    *)
(* more than the largest value among the predecessors                                                        *)
LongestChainDag(n, E, order) ==
  LET PM == [f \in 1..n |-> Preds(E, f)]
      F[k \in 0..n] ==
        IF k = 0 THEN [f \in {} |-> 0]
        ELSE LET prev == F[k-1]
                 f    == order[k]
                 vals == { prev[p] : p \in PM[f] }
                 r    == IF vals = {} THEN 0 ELSE 1 + (CHOOSE m \in vals : \A x \in vals : x <= m)
             IN  [g \in (DOMAIN prev) \cup {f} |-> IF g = f THEN r ELSE prev[g]]
  IN F[n]

LongestChain(n, E) ==
  IF n <= 12 THEN LongestChainLevels(n, E)
  ELSE LET order == KahnOrder(n, E) IN
       IF Len(order) = n THEN LongestChainDag(n, E, order) ELSE LongestChainLevels(n, E)

(* a is ordered before b by rank, then by insertion index *)
Before(rank, a, b) == rank[a] < rank[b] \/ (rank[a] = rank[b] /\ a < b)

(***************************************************************************)
(* Sequences of nodes.                                                       *)
(***************************************************************************)
NoDup(s) == \A i, j \in DOMAIN s : i # j => s[i] # s[j]
IsPerm(n, s) == Len(s) = n /\ NoDup(s) /\ Range(s) \subseteq 1..n

Pos(s, x) == CHOOSE i \in DOMAIN s : s[i] = x

(* s lists nodes so that every listed node comes after all of its predecessors *)
(* (predecessors must be listed): a topological prefix/order w.r.t. E.         *)
IsTopoPrefix(s, E) ==
  /\ NoDup(s)
  /\ \A i \in DOMAIN s : \A a \in Preds(E, s[i]) : \E j \in 1..(i-1) : s[j] = a

IsTopo(n, s, E) == IsPerm(n, s) /\ IsTopoPrefix(s, E)

SeqToSet(s) == Range(s)

(* ascending enumeration of a set of naturals as a sequence *)
SortedSeq(S) ==
  LET F[T \in SUBSET S] ==
        IF T = {} THEN <<>>
        ELSE LET m == CHOOSE x \in T : \A y \in T : x <= y
             IN  <<m>> \o F[T \ {m}]
  IN F[S]

=============================================================================
