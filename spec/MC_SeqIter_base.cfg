SPECIFICATION Spec
CONSTANTS
  N = 4
  Dir = "fwd"
  FailAt = 0
  IgnoreErr = FALSE
INVARIANT Inv_C14
CHECK_DEADLOCK FALSE
