SPECIFICATION Spec
CONSTANTS
  N = 2
  MaxFail = 1
  EnvMode = "async"
  SignalInside = FALSE
  Overlap = TRUE
  Api1 = "for_each"
  Control1 = FALSE
  Order1 = "fwd"
  Limit1 = 0
  Strategy1 = "finish"
  K1 = 0
  Include1 = TRUE
  PreSig1 = FALSE
  Api2 = "try_for_each"
  Control2 = FALSE
  Order2 = "rev"
  Limit2 = 1
  Strategy2 = "none"
  K2 = 0
  Include2 = TRUE
  PreSig2 = FALSE
INVARIANTS Inv1 Inv2 FreshStart
PROPERTY Frame
CHECK_DEADLOCK FALSE
