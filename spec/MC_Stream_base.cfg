SPECIFICATION Spec
CONSTANTS
  N = 3
  Order = "fwd"
  Wrapped = FALSE
  Strategy = "none"
  K = 0
  PreSig = FALSE
  DropStreamEarly = TRUE
  Tasks = 1
  Spurious = FALSE
  DrainDone = "all"
  RegisterDone = "always"
  EndEarly = 0
INVARIANTS TypeOK Inv_C01 Inv_C02 Inv_C03 Inv_C05 Inv_C08
CHECK_DEADLOCK FALSE
