SPECIFICATION Spec
CONSTANTS
  N = 3
  Order = "fwd"
  Wrapped = FALSE
  Strategy = "none"
  K = 0
  PreSig = FALSE
  DropStreamEarly = TRUE
  DrainDone = "all"
  RegisterDone = TRUE
  EndEarly = 0
INVARIANTS TypeOK Inv_C01 Inv_C02 Inv_C03 Inv_C05 Inv_C08
CHECK_DEADLOCK FALSE
