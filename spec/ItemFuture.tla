---------------------------- MODULE ItemFuture ----------------------------
(***************************************************************************)
(* The tail of an item future of the concurrent bodies                      *)
(* (try_for_each_concurrent_internal, src/fn_graph.rs:1535-1556, and the    *)
(* three sibling bodies), with EVERY await point as a suspension point.     *)
(*                                                                          *)
(* Run.tla treats everything an item future does after its user future      *)
(* returned as one atomic step (SFinishCore).  That is an abstraction: the  *)
(* real tail is                                                             *)
(*                                                                          *)
(*     if failed { result_tx.send(e).await;                                 *)
(*                 fn_done_tx.write().await.take(); }          -- close     *)
(*     if let Some(tx) = fn_done_tx.read().await.as_ref() {                 *)
(*         tx.send(fn_id).await; }                             -- report    *)
(*     fns_remaining -= 1; if 0 { fn_done_tx.write().await.take(); }        *)
(*     if interrupted { fn_done_tx.write().await.take(); }                  *)
(*                                                                          *)
(* over a tokio RwLock<Option<Sender>>, and inside a tokio task every one   *)
(* of these awaits may return Pending (cooperative budget), so that item    *)
(* futures of one call interleave at each of them -- in particular while    *)
(* one of them holds the read guard across `send(..).await`.                *)
(*                                                                          *)
(* This module model-checks the lock protocol itself, for every             *)
(* interleaving of M item futures and every subset of failing / interrupted *)
(* ones, and thereby justifies the atomic step of Run.tla:                  *)
(*   Inv_NoFailedReported   a failed function's id is never sent to the     *)
(*                          queuer (else its successors would be released:  *)
(*                          C07)                                            *)
(*   Inv_ClosedAtEnd        when every item future has finished and a       *)
(*                          close was due, the sender is gone (else the     *)
(*                          queuer never ends and the call hangs: C04/C08)  *)
(*   Inv_Serial             what reached the queuer is what SOME serial     *)
(*                          execution of the atomic tails would have sent   *)
(*   Termination            every item future finishes (the RwLock          *)
(*                          protocol cannot deadlock)                       *)
(* CloseMode = "try_write" is the deviation of the seeded defects C07_c /   *)
(* C08_c (close skipped when the lock is held): both invariants fail.       *)
(* The code-level counterpart are the `budget` / `budget_exh` families of   *)
(* the harness (tokio budget running out at each of these awaits).          *)
(***************************************************************************)
EXTENDS Naturals, FiniteSets, Sequences, TLC

CONSTANTS
  M,           \* number of item futures whose user future has returned
  CloseMode    \* "write_await" (the code) | "try_write" (skip the close when the lock is held)

VARIABLES
  pc,          \* per item future: where its tail is
  failedS,     \* the futures whose function failed          (chosen in Init)
  intS,        \* the futures that carry an Interrupted item (chosen in Init)
  tx,          \* the Option<Sender> inside the RwLock: TRUE = Some
  readers,     \* futures holding a read guard
  writer,      \* future holding the write guard (0 = none)
  waitW,       \* futures queued for the write guard (tokio's RwLock is fair: new readers queue behind them)
  remaining,   \* fns_remaining
  sent,        \* ids that reached the done channel
  errors,      \* errors that reached the result channel
  closeDue     \* a close has been requested by some tail (failure, interrupt, or remaining = 0)

vars == <<pc, failedS, intS, tx, readers, writer, waitW, remaining, sent, errors, closeDue>>

F == 1..M

(* program counters, in order:                                                                          *)
(*  "err_send"  result_tx.send(e).await                (failed only)                                     *)
(*  "close_f"   fn_done_tx.write().await.take()        (failed only)                                     *)
(*  "read"      fn_done_tx.read().await                                                                   *)
(*  "send"      tx.send(id).await, read guard held                                                        *)
(*  "dec"       fns_remaining decrement (+ close when it reaches 0)                                       *)
(*  "close_r"   the close of the last function                                                            *)
(*  "close_i"   fn_done_tx_drop_if_interrupted                                                            *)
(*  "done"                                                                                                *)

Init ==
  /\ failedS \in SUBSET F /\ intS \in SUBSET F
  /\ Cardinality(intS) <= 1                      \* the Interrupted item is the last item of the stream
  /\ pc = [i \in F |-> IF i \in failedS THEN "err_send" ELSE "read"]
  /\ tx = TRUE /\ readers = {} /\ writer = 0 /\ waitW = {}
  /\ remaining \in M..(M + 1)                    \* these M are the last ones, or one more function is outstanding
  /\ sent = {} /\ errors = {} /\ closeDue = FALSE

Goto(i, l) == pc' = [pc EXCEPT ![i] = l]

ErrSend(i) ==
  /\ pc[i] = "err_send"
  /\ errors' = errors \cup {i}
  /\ Goto(i, "close_f")
  /\ UNCHANGED <<failedS, intS, tx, readers, writer, waitW, remaining, sent, closeDue>>

(* write().await.take(): queue, acquire when nobody holds the lock, take, release -- acquire+take+release is  *)
(* one step because nothing suspends while the write guard is held                                            *)
CloseStep(i, from, to) ==
  /\ pc[i] = from
  /\ closeDue' = TRUE
  /\ IF CloseMode = "try_write"
     THEN /\ tx' = IF readers = {} /\ writer = 0 THEN FALSE ELSE tx      \* skipped when the lock is held
          /\ Goto(i, to)
          /\ UNCHANGED waitW
     ELSE IF readers = {} /\ writer = 0
          THEN /\ tx' = FALSE /\ Goto(i, to) /\ waitW' = waitW \ {i}
          ELSE /\ waitW' = waitW \cup {i} /\ i \notin waitW                \* suspends in the queue (once)
               /\ UNCHANGED <<tx, pc>>
  /\ UNCHANGED <<failedS, intS, readers, writer, remaining, sent, errors>>

ReadAcquire(i) ==
  /\ pc[i] = "read"
  /\ writer = 0 /\ waitW = {}                    \* fair lock: readers queue behind a waiting writer
  /\ IF tx
     THEN /\ readers' = readers \cup {i} /\ Goto(i, "send")
     ELSE /\ Goto(i, "dec") /\ UNCHANGED readers  \* None: guard dropped at once, nothing to send
  /\ UNCHANGED <<failedS, intS, tx, writer, waitW, remaining, sent, errors, closeDue>>

Send(i) ==
  /\ pc[i] = "send"
  /\ sent' = sent \cup {i}
  /\ readers' = readers \ {i}
  /\ Goto(i, "dec")
  /\ UNCHANGED <<failedS, intS, tx, writer, waitW, remaining, errors, closeDue>>

Dec(i) ==
  /\ pc[i] = "dec"
  /\ remaining' = remaining - 1
  /\ Goto(i, IF remaining - 1 = 0 THEN "close_r" ELSE IF i \in intS THEN "close_i" ELSE "done")
  /\ UNCHANGED <<failedS, intS, tx, readers, writer, waitW, sent, errors, closeDue>>

Next ==
  \E i \in F :
    \/ ErrSend(i)
    \/ CloseStep(i, "close_f", "read")
    \/ ReadAcquire(i)
    \/ Send(i)
    \/ Dec(i)
    \/ CloseStep(i, "close_r", IF i \in intS THEN "close_i" ELSE "done")
    \/ CloseStep(i, "close_i", "done")

Spec == Init /\ [][Next]_vars
LiveSpec == Spec /\ WF_vars(Next)

AllDone == \A i \in F : pc[i] = "done"
Termination == <>AllDone

TypeOK ==
  /\ readers \subseteq F /\ writer = 0 /\ waitW \subseteq F
  /\ sent \subseteq F /\ errors \subseteq F /\ remaining \in 0..(M + 1)

(* C07: the id of a failed function never reaches the queuer *)
Inv_NoFailedReported == sent \cap failedS = {}

(* C04 / C08: a close that was due has happened by the time all tails are through *)
Inv_ClosedAtEnd == (AllDone /\ closeDue) => ~tx

(* every error is reported once, only by failed functions *)
Inv_Errors == errors \subseteq failedS /\ (AllDone => errors = failedS)

(* Towards Run!SFinishCore (the atomic tail): a tail sends iff it is not failed itself and no closing tail ran    *)
(* before it.  So only non-failed futures may have sent, and if nothing closes (no failure, no interrupted   *)
(* item, fns_remaining stays positive) every future must have sent.                                          *)
Inv_Serial ==
  AllDone =>
    /\ sent \subseteq F \ failedS
    /\ (failedS = {} /\ intS = {} /\ remaining > 0) => sent = F

=============================================================================
