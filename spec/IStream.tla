------------------------------ MODULE IStream ------------------------------
(***************************************************************************)
(* interruptible 0.2.4, InterruptibleStream::poll_next and                  *)
(* InterruptibilityState::item_interrupt_poll, transcribed field for field  *)
(* (interruptible_stream.rs:50-190, interruptibility_state.rs).  The        *)
(* bounds of C08 are decided inside this dependency, so it is part of the   *)
(* specification.                                                           *)
(*                                                                          *)
(* State record `is`:                                                       *)
(*   hp   has_pending                 the inner stream returned Pending      *)
(*   cnt  item_polled_is_counted                                            *)
(*   sl   interrupt_signal.is_some()  (stream-local)                         *)
(*   rcv  interrupt_signal_received.is_some()                               *)
(*   c    poll_since_interrupt_count  (only tracked for PollNextN, capped)  *)
(*   ntf  interrupted_and_notified                                          *)
(* Strategies: "none"/"non" = NonInterruptible, "ignore", "finish",         *)
(* "poll_n" with parameter k.                                               *)
(***************************************************************************)
EXTENDS Naturals

IS0 == [hp |-> FALSE, cnt |-> FALSE, sl |-> FALSE, rcv |-> FALSE, c |-> 0, ntf |-> FALSE]

HasChannel(strategy) == strategy \in {"ignore", "finish", "poll_n"}

(***************************************************************************)
(* One poll_next.  inner \in {"pending", "end", "item"} is what the inner   *)
(* stream WOULD return if polled now; chan = a signal is in the channel.    *)
(* Result: the new state, the outcome                                       *)
(*    "pending" | "end" | "item" (NoInterrupt) | "int_item" (Interrupted    *)
(*    (Some)) | "int_none" (Interrupted(None))                               *)
(* polled = the inner stream was polled (so an "item"/"end" was consumed,    *)
(* or its waker registered), recv = the signal was taken from the channel.  *)
(***************************************************************************)
(* act = fn_interrupt_activate is called during this poll (item_interrupt_poll returned a signal);         *)
(* pit = fn_interrupt_poll_item is called during this poll (an Interrupted item is returned)               *)
PollIS(strategy, k, is, inner, chan) ==
  IF is.ntf THEN [is |-> is, out |-> "end", polled |-> FALSE, recv |-> FALSE, act |-> FALSE, pit |-> FALSE]
  ELSE
    LET doCheck   == ~is.sl /\ ~is.cnt                       \* interrupt_check
        chn       == HasChannel(strategy)
        needs     == IF strategy = "poll_n" THEN ~is.hp ELSE TRUE
        firstRecv == doCheck /\ chn /\ ~is.rcv /\ chan
        rcv2      == IF doCheck /\ chn THEN is.rcv \/ chan ELSE is.rcv
        inc       == /\ doCheck /\ chn /\ rcv2 /\ needs
                     /\ (strategy = "poll_n" => ~firstRecv)
        c2        == IF inc /\ strategy = "poll_n" /\ is.c < k THEN is.c + 1 ELSE is.c
        reached   == IF strategy = "poll_n" THEN (IF inc THEN is.c + 1 ELSE is.c) >= k ELSE TRUE
        sigOut    == doCheck /\ chn /\ rcv2 /\ strategy \in {"finish", "poll_n"} /\ reached
        sl2       == IF doCheck THEN sigOut ELSE is.sl
        cnt2      == IF doCheck THEN inc ELSE is.cnt
        s1        == [is EXCEPT !.rcv = rcv2, !.c = c2, !.sl = sl2, !.cnt = cnt2]
        ready(s)  == [s EXCEPT !.hp = FALSE, !.cnt = FALSE]
    IN
    IF is.hp THEN                                             \* poll_future_item
      IF inner = "pending"
      THEN [is |-> s1, out |-> "pending", polled |-> TRUE, recv |-> firstRecv, act |-> sigOut, pit |-> FALSE]
      ELSE IF sl2
           THEN [is |-> ready([s1 EXCEPT !.ntf = TRUE]),
                 out |-> IF inner = "item" THEN "int_item" ELSE "int_none",
                 polled |-> TRUE, recv |-> firstRecv, act |-> sigOut, pit |-> TRUE]
           ELSE [is |-> ready(s1), out |-> inner, polled |-> TRUE, recv |-> firstRecv, act |-> sigOut, pit |-> FALSE]
    ELSE
      IF sl2
      THEN [is |-> ready([s1 EXCEPT !.ntf = TRUE]), out |-> "int_none", polled |-> FALSE, recv |-> firstRecv,
            act |-> sigOut, pit |-> TRUE]
      ELSE IF inner = "pending"
           THEN [is |-> [s1 EXCEPT !.hp = TRUE], out |-> "pending", polled |-> TRUE, recv |-> firstRecv, act |-> sigOut, pit |-> FALSE]
           ELSE [is |-> ready(s1), out |-> inner, polled |-> TRUE, recv |-> firstRecv, act |-> sigOut, pit |-> FALSE]

=============================================================================
