SPECIFICATION Spec
CONSTANTS
  N = 3
  Types = {1}
  Shape = "all"
  ChildOrder = "any"
  PushRule = "on_increase"
  ConflictMode = "full"
  SkipSameRank = FALSE
  TieReverse = FALSE
  NoPathTest = FALSE
  RankMin = FALSE
INVARIANTS TypeOK Inv_NoPanic Inv_C18 Inv_C13 Inv_Twin Inv_C11 Inv_C12 Inv_Forward
CHECK_DEADLOCK FALSE
