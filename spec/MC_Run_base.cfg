SPECIFICATION Spec
CONSTANTS
  N = 3
  Api = "for_each"
  Control = FALSE
  Order = "fwd"
  Limit = 0
  Strategy = "finish"
  K = 0
  Include = TRUE
  PreSig = FALSE
  MaxFail = 0
  EnvMode = "async"
  SignalInside = FALSE
  ReleaseAt = 0
  DoneAtStart = FALSE
  RevIncoming = FALSE
  Cap = 0
  EmptyRelease = TRUE
  DropOnInterrupt = TRUE
  DropOnError = TRUE
  ResultCap = 0
  OneRelease = FALSE
  IgnoreLimit = FALSE
INVARIANTS TypeOK Inv_C01 Inv_C02 Inv_C03 Inv_C04 Inv_C06 Inv_C07 Inv_C08 Inv_C09 Inv_C10
VIEW View
CHECK_DEADLOCK FALSE
