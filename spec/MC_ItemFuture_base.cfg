SPECIFICATION LiveSpec
CONSTANTS
  M = 3
  CloseMode = "write_await"
INVARIANTS TypeOK Inv_NoFailedReported Inv_ClosedAtEnd Inv_Errors Inv_Serial
PROPERTY Termination
CHECK_DEADLOCK FALSE
