------------------------------- MODULE Build -------------------------------
(***************************************************************************)
(* FnGraphBuilder and build() as FUNCTIONS of their input (the "functional  *)
(* twin" of the step-by-step algorithms in Builder.tla). Used by the run    *)
(* models, the sequential-iteration model and the trace specifications.     *)
(* Builder.tla checks with TLC that the transcribed algorithms compute      *)
(* exactly these values for every input in its bound.                       *)
(*                                                                          *)
(* Code: src/fn_graph_builder.rs, rank_calc.rs, data_edge_augmenter.rs,     *)
(* predecessor_count_calc.rs; daggy 0.9 update_edge / add_edge.             *)
(***************************************************************************)
EXTENDS Graph

(* An accepted-edge sequence `ue` is a sequence of <<a, b, kind>>.          *)

EdgeIndexOf(ue, a, b) ==
  IF \E i \in DOMAIN ue : ue[i][1] = a /\ ue[i][2] = b
  THEN CHOOSE i \in DOMAIN ue : ue[i][1] = a /\ ue[i][2] = b
  ELSE 0

(* daggy::Dag::update_edge: an existing ordered pair has its kind replaced *)
(* in place; otherwise add_edge, which rejects a == b and any edge whose    *)
(* target already reaches its source.                                       *)
ApplyEdge(n, ue, a, b, kind) ==
  LET i == EdgeIndexOf(ue, a, b) IN
  IF i # 0
  THEN [res |-> "ok", ue |-> [ue EXCEPT ![i] = <<a, b, kind>>]]
  ELSE IF a = b \/ a \in ReachFrom(n, PairsOfSeq(ue), b)
       THEN [res |-> "cycle", ue |-> ue]
       ELSE [res |-> "ok", ue |-> Append(ue, <<a, b, kind>>)]

(***************************************************************************)
(* The same with the descendant map D of the accepted edges carried along   *)
(* (D[x] = nodes reachable from x), so that the cycle test and the update   *)
(* are linear in n instead of a reachability search per call.  Used by the  *)
(* trace monitor for large inputs; BuilderCalls checks D = DescOf(ue).      *)
(***************************************************************************)
DescOf(n, ue) == [x \in 1..n |-> ReachFrom(n, PairsOfSeq(ue), x)]
DescAdd(n, D, a, b) == [x \in 1..n |-> IF x = a \/ a \in D[x] THEN D[x] \cup {b} \cup D[b] ELSE D[x]]

ApplyEdgeD(n, ue, D, a, b, kind) ==
  LET i == EdgeIndexOf(ue, a, b) IN
  IF i # 0
  THEN [res |-> "ok", ue |-> [ue EXCEPT ![i] = <<a, b, kind>>], D |-> D]
  ELSE IF a = b \/ a \in D[b]
       THEN [res |-> "cycle", ue |-> ue, D |-> D]
       ELSE [res |-> "ok", ue |-> Append(ue, <<a, b, kind>>), D |-> DescAdd(n, D, a, b)]

ApplyEdgesD(n, ue, D, pairs, kind) ==
  LET F[k \in 0..Len(pairs)] ==
        IF k = 0 THEN [res |-> "ok", ue |-> ue, D |-> D]
        ELSE LET p == F[k-1] IN
             IF p.res = "cycle" THEN p
             ELSE ApplyEdgeD(n, p.ue, p.D, pairs[k][1], pairs[k][2], kind)
  IN F[Len(pairs)]

(* add_logic_edges / add_contains_edges: left to right, stop at the first   *)
(* rejected pair, keep what was accepted before it.                         *)
ApplyEdges(n, ue, pairs, kind) ==
  LET F[k \in 0..Len(pairs)] ==
        IF k = 0 THEN [res |-> "ok", ue |-> ue]
        ELSE LET p == F[k-1] IN
             IF p.res = "cycle" THEN p
             ELSE ApplyEdge(n, p.ue, pairs[k][1], pairs[k][2], kind)
  IN F[Len(pairs)]

(* Builder calls: [op |-> "edge", kind, a, b], [op |-> "edges", kind, pairs], or [op |-> "fn"]: add_fn of the next   *)
(* function between edge calls.  Function ids are positions of add_fn calls, nothing else; adding a function never *)
(* touches the accepted edges, and the cycle test of later calls is over the same edges as if all functions had   *)
(* been added first.                                                                                              *)
ApplyCall(n, ue, c) ==
  IF c.op = "edge" THEN ApplyEdge(n, ue, c.a, c.b, c.kind)
  ELSE IF c.op = "fn" THEN [res |-> "ok", ue |-> ue]
  ELSE ApplyEdges(n, ue, c.pairs, c.kind)

UserEdges(n, calls) ==
  LET F[k \in 0..Len(calls)] ==
        IF k = 0 THEN <<>> ELSE ApplyCall(n, F[k-1], calls[k]).ue
  IN F[Len(calls)]

(***************************************************************************)
(* build()                                                                  *)
(***************************************************************************)
Ranks(n, ue) == LongestChain(n, PairsOfSeq(ue))

(* ids sorted by rank, stable: ties by insertion index *)
RankOrder(n, rank) ==
  LET F[k \in 0..n] ==
        IF k = 0 THEN <<>>
        ELSE LET p == F[k-1]
                 rest == (1..n) \ Range(p)
                 m == CHOOSE x \in rest : \A y \in rest : x = y \/ Before(rank, x, y)
             IN  Append(p, m)
  IN F[n]

(* The augmenter visits pairs (order[i], order[j]), i from n down to 1 and  *)
(* j from i+1 up to n, and adds cur -> next when there is no path yet and   *)
(* the two conflict.                                                        *)
AugPairs(n, order) ==
  LET Row(i) == [ j \in 1..(n - i) |-> <<order[i], order[i + j]>> ]
      F[k \in 0..n] == IF k = 0 THEN <<>> ELSE F[k-1] \o Row(n + 1 - k)
  IN F[n]

DataEdges(n, ue, reads, writes) ==
  LET order == RankOrder(n, Ranks(n, ue))
      P     == AugPairs(n, order)
      UE    == PairsOfSeq(ue)
      F[k \in 0..Len(P)] ==      \* data edges added after the first k pairs
        IF k = 0 THEN <<>>
        ELSE LET prev == F[k-1]
                 cur  == P[k][1]
                 nxt  == P[k][2]
                 E    == UE \cup PairsOfSeq(prev)
             IN  IF Conflict(reads, writes, cur, nxt) /\ nxt \notin ReachFrom(n, E, cur)
                 THEN Append(prev, <<cur, nxt, "data">>)
                 ELSE prev
  IN F[Len(P)]

(* raw_edges() of the built graph: accepted user edges, then data edges in  *)
(* the order the augmenter added them                                       *)
Built(n, ue, reads, writes) == ue \o DataEdges(n, ue, reads, writes)

InCounts(n, es)  == [ f \in 1..n |-> Cardinality({ i \in DOMAIN es : es[i][2] = f }) ]
OutCounts(n, es) == [ f \in 1..n |-> Cardinality({ i \in DOMAIN es : es[i][1] = f }) ]

=============================================================================
