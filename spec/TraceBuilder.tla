---------------------------- MODULE TraceBuilder ----------------------------
(***************************************************************************)
(* Implementation -> design model, for build(): the events emitted by      *)
(* fn_graph itself under `verif_hooks` during RankCalc::calc (one          *)
(* `rank_pop{f, rank}` per queue pop) and DataEdgeAugmenter::augment (one   *)
(* `aug_edge{a, b}` per edge added) must be the steps of Builder.tla, in     *)
(* the same order, and the built graph / ranks / pop count must be what the *)
(* model has computed when it reaches `done`.  With the children order      *)
(* fixed to petgraph's (ChildOrder = "petgraph") the model is deterministic. *)
(* Drift = the code no longer follows this model; never a verdict.           *)
(***************************************************************************)
EXTENDS Builder, Json, IOUtils

Rec == ndJsonDeserialize(IOEnv.TRACE)

VARIABLES l, okf, scn, stage     \* stage: "calls" | "algo" | "built"

tvars == <<vars, l, okf, scn, stage>>

Has(k) == k <= Len(Rec)
IsEv(e) == Has(l) /\ "hook" \notin DOMAIN Rec[l] /\ Rec[l].ev = e
IsHook(e) == Has(l) /\ "hook" \in DOMAIN Rec[l] /\ Rec[l].ev = e
Step == l' = l + 1
Frozen == UNCHANGED vars
Keep == UNCHANGED <<okf, scn, stage>>
ToSets(ss) == [ k \in DOMAIN ss |-> Range(ss[k]) ]

TInit ==
  /\ l = 1 /\ okf = TRUE /\ scn = "" /\ stage = "calls"
  /\ n = 0 /\ ue = <<>> /\ reads = <<>> /\ writes = <<>> /\ phase = "rank" /\ queue = <<>> /\ rank = <<>> /\ pops = 0
  /\ order = <<>> /\ i = 0 /\ j = 0 /\ data = <<>> /\ panicked = FALSE

Verdict == PrintT("TI " \o scn \o (IF okf THEN " ok" ELSE " drift"))

TReset ==
  /\ IsEv("reset")
  /\ (scn # "" => Verdict)
  /\ scn' = Rec[l].scn /\ okf' = TRUE /\ stage' = "calls" /\ Step
  /\ n' = Rec[l].n /\ reads' = ToSets(Rec[l].reads) /\ writes' = ToSets(Rec[l].writes)
  /\ ue' = <<>> /\ phase' = "rank" /\ queue' = <<>> /\ rank' = [f \in 1..Rec[l].n |-> 0] /\ pops' = 0
  /\ order' = <<>> /\ i' = 0 /\ j' = 0 /\ data' = <<>> /\ panicked' = FALSE

TEdge ==
  /\ (IsEv("add_edge") \/ IsEv("add_edges")) /\ okf /\ stage = "calls"
  /\ LET e == Rec[l]
         r == IF e.ev = "add_edge" THEN ApplyEdge(n, ue, e.a, e.b, e.kind) ELSE ApplyEdges(n, ue, e.pairs, e.kind)
     IN ue' = r.ue /\ e.res = r.res
  /\ Step /\ Keep
  /\ UNCHANGED <<n, reads, writes, phase, queue, rank, pops, order, i, j, data, panicked>>

(* build() begins: the queue is seeded with the root nodes *)
TBegin ==
  /\ okf /\ stage = "calls" /\ Has(l)
  /\ (IsHook("rank_pop") \/ IsHook("aug_edge") \/ IsEv("build"))
  /\ queue' = Ascending(n, Roots(n, PairsOfSeq(ue)))
  /\ stage' = "algo"
  /\ UNCHANGED <<n, ue, reads, writes, phase, rank, pops, order, i, j, data, panicked, l, okf, scn>>

TPop ==
  /\ IsHook("rank_pop") /\ okf /\ stage = "algo"
  /\ RankPop
  /\ Head(queue) = Rec[l].f /\ rank[Rec[l].f] = Rec[l].rank
  /\ Step /\ Keep

TAug ==
  /\ IsHook("aug_edge") /\ okf /\ stage = "algo"
  /\ AugStep
  /\ data' = Append(data, <<Rec[l].a, Rec[l].b, "data">>)
  /\ Step /\ Keep

(* steps of the algorithms that log nothing *)
Silent ==
  /\ okf /\ stage = "algo" /\ Has(l)
  /\ \/ (RankDone /\ ~IsHook("rank_pop"))
     \/ (AugStep /\ data' = data)
     \/ AugNextOuter
     \/ AugEmpty
  /\ UNCHANGED <<l, okf, scn, stage>>

TBuilt ==
  /\ IsEv("build") /\ okf /\ stage = "algo"
  /\ phase = "done"
  /\ LET e == Rec[l] IN
     /\ e.panic = ""
     /\ e.edges = ue \o data
     /\ e.ranks = rank
     /\ (e.rank_pops >= 0 => e.rank_pops = pops)
  /\ stage' = "built" /\ Step /\ Frozen /\ UNCHANGED <<okf, scn>>

TSkip ==
  /\ Has(l)
  /\ \/ ("hook" \in DOMAIN Rec[l] /\ Rec[l].ev \notin {"rank_pop", "aug_edge"})
     \/ ("hook" \notin DOMAIN Rec[l] /\ Rec[l].ev \notin {"reset", "add_edge", "add_edges", "build"})
     \/ (~okf /\ Rec[l].ev # "reset")
     \/ (okf /\ stage = "built" /\ Rec[l].ev # "reset")
  /\ Step /\ Frozen /\ Keep

TDrift ==
  /\ Has(l) /\ okf
  /\ okf' = FALSE
  /\ PrintT("TI-AT " \o scn \o " " \o ToString(l))
  /\ Step /\ Frozen /\ UNCHANGED <<scn, stage>>

TEnd == l = Len(Rec) + 1 /\ scn # "" /\ Verdict /\ l' = l + 1 /\ Frozen /\ Keep

TNext == TReset \/ TEdge \/ TBegin \/ TPop \/ TAug \/ Silent \/ TBuilt \/ TSkip \/ TEnd
TNextD == TNext \/ (~ENABLED TNext /\ TDrift)
TSpec == TInit /\ [][TNextD]_tvars
=============================================================================
