SPECIFICATION Spec
CONSTANTS
  N = 3
  MaxCalls = 4
  MaxBatch = 2
  AddInsteadOfUpdate = FALSE
INVARIANTS Inv_Dag Inv_C16_Edge Inv_C16_Batch Inv_DescMap Inv_AddFnFrame
CHECK_DEADLOCK FALSE
