#!/bin/bash
# usage: tlc.sh <heap> <workdir> <tlc args...>   (serial GC, small heap: see DESIGN §7)
heap=$1; shift; wd=$1; shift
exec java -Xmx$heap -Xss512m -XX:+UseSerialGC -Dtlc2.tool.queue.IStateQueue=StateDeque \
  -cp /opt/veriftools/tla/tla2tools.jar:/opt/veriftools/tla/CommunityModules-deps.jar tlc2.TLC \
  -metadir "$wd" -noGenerateSpecTE "$@"
