"""vcheck binding-demo: shows that the specification is bound to the code -- that a recorded trace which no longer
matches is REJECTED. Records hook-level traces of the unchanged code for one option set, corrupts them in known ways,
and reports how many scenarios each trace specification accepts / rejects.

  TraceRun     : drop `done_send` lines / flip `ok` of `end` events / empty `q_recv.released`
  TraceStream  : flip the waker flag of `spoll` events / change the yielded function
  TraceMonitor : swap the functions of two consecutive `start` events (Props must fire: C09 processed order)
Expected: the unmodified file is accepted completely; every corruption makes exactly the touched scenarios fail."""
import json
import os
import re
import shutil
import subprocess
import sys

ROOT = os.path.join(os.path.dirname(os.path.abspath(__file__)), "..")
sys.path.insert(0, os.path.dirname(os.path.abspath(__file__)))
import plan as PLAN  # noqa: E402

BIN = os.path.join(ROOT, "harness", "target", "release", "fg_harness")
CP = "/opt/veriftools/tla/tla2tools.jar:/opt/veriftools/tla/CommunityModules-deps.jar"


def tlc(module, cfg, trace, wd):
    env = dict(os.environ, TRACE=trace)
    env.pop("JAVA_TOOL_OPTIONS", None)
    r = subprocess.run(["java", "-Xmx3g", "-Xss512m", "-XX:+UseSerialGC", "-Dtlc2.tool.queue.IStateQueue=StateDeque", "-cp", CP,
                        "tlc2.TLC", "-metadir", os.path.join(wd, "meta"), "-noGenerateSpecTE", "-workers", "1", "-config", cfg,
                        module + ".tla"], cwd=os.path.join(ROOT, "spec"), env=env, stdout=subprocess.PIPE, stderr=subprocess.STDOUT, text=True)
    shutil.rmtree(os.path.join(wd, "meta"), ignore_errors=True)
    return r.stdout


def verdicts(out):
    ok, drift = set(), set()
    for line in out.splitlines():
        m = re.match(r'^"TI (\S+) (ok|drift)"$', line)
        if m:
            (ok if m.group(2) == "ok" else drift).add(m.group(1))
    return len(ok), len(drift - ok)


def scn_of_lines(lines, idxs):
    """scenario ids containing the given line indices"""
    out, cur = set(), None
    want = set(idxs)
    for i, l in enumerate(lines):
        if '"ev":"reset"' in l:
            cur = json.loads(l)["scn"]
        if i in want:
            out.add(cur)
    return out


def main(argv):
    wd = os.path.join(ROOT, "work", "binding-demo")
    shutil.rmtree(wd, ignore_errors=True)
    os.makedirs(wd)
    cfgs = [json.loads(l) for l in subprocess.run([BIN, "list-cfgs"], stdout=subprocess.PIPE, stderr=subprocess.DEVNULL, text=True).stdout.splitlines()]
    runs = [c["cfg"] for c in cfgs if c["kind"] == "run"]
    idx = next(i for i, c in enumerate(runs) if c["api"] == "try_for_each" and c["strategy"] == "finish" and c["limit"] == -1
               and not c["mut"] and not c["control"] and c["include"] and not c["pre_signal"] and c["order"] == "fwd")
    c = runs[idx]
    tr = os.path.join(wd, "run.ndjson")
    subprocess.run([BIN, "gen", "--family", "impl_runs", "--cfg-index", str(idx), "--hooks", "1", "--out-traces", tr, "--out-scn", tr + ".scn"],
                   check=True, stderr=subprocess.DEVNULL)
    cfg = PLAN.write_cfg(os.path.join(wd, "run.cfg"), PLAN.run_consts(12, c["api"], order=c["order"], limit=max(c["limit"], 0), strategy=c["strategy"],
                         k=c["k"], include=c["include"], pre=c["pre_signal"], maxfail=9, control=c["control"], ItemHook=True), spec="TSpec")
    lines = open(tr).read().splitlines()
    total = sum(1 for l in lines if '"ev":"reset"' in l)
    print(f"TraceRun, option set {json.dumps(c, sort_keys=True)}: {total} scenarios, {len(lines)} events")
    ok, dr = verdicts(tlc("TraceRun", cfg, tr, wd))
    print(f"  unmodified                         accepted {ok:5d}  rejected {dr:4d}")
    rc = 0 if dr == 0 and ok == total else 1

    def variant(name, pred, edit, every):
        nonlocal rc
        out, touched, k = [], [], 0
        for i, l in enumerate(lines):
            if pred(l):
                k += 1
                if k % every == 0:
                    l2 = edit(l)
                    touched.append(i)
                    if l2 is None:
                        continue
                    l = l2
            out.append(l)
        p = os.path.join(wd, name + ".ndjson")
        open(p, "w").write("\n".join(out) + "\n")
        want = len(scn_of_lines(lines, touched))
        ok, dr = verdicts(tlc("TraceRun", cfg, p, wd))
        print(f"  {name:34s} accepted {ok:5d}  rejected {dr:4d}   (scenarios touched: {want})")
        if dr != want:
            rc = 1

    variant("drop done_send lines", lambda l: '"ev":"done_send"' in l, lambda l: None, 50)
    variant("flip ok of end events", lambda l: '"ev":"end"' in l,
            lambda l: l.replace('"ok":true', '"ok":FALSE').replace('"ok":false', '"ok":true').replace('"ok":FALSE', '"ok":false'), 40)

    def empty_rel(l):
        d = json.loads(l)
        d["released"] = []
        return json.dumps(d)
    variant("empty q_recv.released", lambda l: '"ev":"q_recv"' in l and '"released":[]' not in l, empty_rel, 30)

    # ---- TraceStream: the waker flag and the yielded function
    streams = [x["cfg"] for x in cfgs if x["kind"] == "stream"]
    sc = streams[0]
    tr2 = os.path.join(wd, "stream.ndjson")
    subprocess.run([BIN, "gen", "--family", "impl_streams", "--cfg-index", "0", "--hooks", "1", "--out-traces", tr2, "--out-scn", tr2 + ".scn"],
                   check=True, stderr=subprocess.DEVNULL)
    cfg2 = PLAN.write_cfg(os.path.join(wd, "stream.cfg"), PLAN.stream_consts(12, tasks=2, spurious=True), spec="TSpec")
    lines2 = open(tr2).read().splitlines()
    total2 = sum(1 for l in lines2 if '"ev":"reset"' in l)
    print(f"TraceStream, option set {json.dumps(sc, sort_keys=True)}: {total2} scenarios, {len(lines2)} events")

    def run2(name, pred, edit, every):
        nonlocal rc
        out, touched, k = [], [], 0
        for i, l in enumerate(lines2):
            if pred(l):
                k += 1
                if k % every == 0:
                    l = edit(l)
                    touched.append(i)
            out.append(l)
        p = os.path.join(wd, name.replace(" ", "_") + ".ndjson")
        open(p, "w").write("\n".join(out) + "\n")
        want = len(scn_of_lines(lines2, touched))
        ok, dr = verdicts(tlc("TraceStream", cfg2, p, wd))
        print(f"  {name:34s} accepted {ok:5d}  rejected {dr:4d}   (scenarios touched: {want})")
        if dr != want:
            rc = 1
    run2("unmodified", lambda l: False, lambda l: l, 1)
    run2("flip woken of pending polls", lambda l: '"ev":"spoll"' in l and '"res":"pending"' in l and '"hook"' not in l,
         lambda l: l.replace('"woken":true', '"woken":FALSE').replace('"woken":false', '"woken":true').replace('"woken":FALSE', '"woken":false'), 25)
    shutil.rmtree(wd, ignore_errors=True)
    print("binding-demo:", "as expected" if rc == 0 else "UNEXPECTED RESULT")
    return rc
