#!/usr/bin/env python3
"""Mechanical mutation run (self-validation only; never touches /repo).

Generates one-token mutants of fn_graph's sources in a scratch git worktree, keeps those that still compile with both
feature sets, and runs `vcheck SMOKE --no-design` (a cross-section of every scenario family, any failed predicate
reported) from a scratch copy of /verif whose harness points at the worktree. Prints one line per mutant:
KILLED (some Props predicate failed / drift / tool error) or SURVIVED, and a summary.

usage: mutate.py <worktree> <verif-copy> [--max N] [--seed S] [--files a.rs,b.rs]
"""
import os, random, re, subprocess, sys, json, time

FILES = ["src/fn_graph.rs", "src/fn_graph_builder.rs", "src/fn_graph_builder/rank_calc.rs",
         "src/fn_graph_builder/data_edge_augmenter.rs", "src/fn_graph_builder/predecessor_count_calc.rs",
         "src/stream_outcome.rs", "src/graph_info.rs", "src/fn_ref.rs", "src/stream_opts.rs"]
OPS = [
    (r"==", "!="), (r"!=", "=="), (r" < ", " <= "), (r" > ", " >= "), (r" >= ", " > "), (r" <= ", " < "),
    (r"\+= 1", "-= 1"), (r"-= 1", "+= 1"), (r" \+ 1\b", " + 0"), (r" - 1\b", " - 0"),
    (r"&&", "||"), (r"\|\|", "&&"), (r"\btrue\b", "false"), (r"\bfalse\b", "true"),
    (r"\.incoming\(\)", ".outgoing()"), (r"\.outgoing\(\)", ".incoming()"),
    (r"StreamOrder::Forward", "StreamOrder::Reverse"), (r"StreamOrder::Reverse", "StreamOrder::Forward"),
    (r"\.source\(\)", ".target()"), (r"\.target\(\)", ".source()"),
    (r"graph_structure_rev\b", "graph_structure"), (r"\bmax\(", "min("),
    (r"Edge::Logic", "Edge::Contains"), (r"Edge::Data", "Edge::Logic"),
    (r"\.is_some\(\)", ".is_none()"), (r"\.is_none\(\)", ".is_some()"), (r"\.is_empty\(\)", ".is_empty() == false"),
]
DELETE = [r"^\s*[a-z_\.]*\.take\(\);\s*$", r"^\s*drop\([a-z_]+\);\s*$", r"^\s*fns_remaining -= 1;\s*$"]


def sh(cmd, cwd=None, timeout=None):
    return subprocess.run(cmd, shell=True, cwd=cwd, stdout=subprocess.PIPE, stderr=subprocess.STDOUT, text=True, timeout=timeout)


def candidates(wt, files):
    out = []
    for f in files:
        lines = open(os.path.join(wt, f)).read().split("\n")
        in_test = False
        for i, line in enumerate(lines):
            if re.match(r"\s*#\[cfg\(test\)\]", line) or re.match(r"^mod tests", line) or re.match(r"^#\[cfg\(.*test", line):
                in_test = True
            if in_test or "verif_hooks" in line or line.strip().startswith("//") or line.strip().startswith("#["):
                continue
            # inside a `verif_hooks::emit(|| format!(..))` block (the hook code itself is not under test)
            if any("verif_hooks::emit" in lines[j] for j in range(max(0, i - 8), i)) and not any(lines[j].strip() == "});" for j in range(max(0, i - 8), i) if "verif_hooks::emit" not in lines[j] and j > max(k for k in range(max(0, i - 8), i) if "verif_hooks::emit" in lines[k])):
                continue
            if "debug_assert" in line or "expect(" in line and "emit" in line:
                continue
            for pat, rep in OPS:
                for m in re.finditer(pat, line):
                    out.append((f, i, m.start(), m.end(), rep, "op"))
            for pat in DELETE:
                if re.match(pat, line):
                    out.append((f, i, 0, len(line), "", "del"))
    return out


def main():
    wt, vcopy = sys.argv[1], sys.argv[2]
    maxn = int(sys.argv[sys.argv.index("--max") + 1]) if "--max" in sys.argv else 60
    seed = int(sys.argv[sys.argv.index("--seed") + 1]) if "--seed" in sys.argv else 1
    files = sys.argv[sys.argv.index("--files") + 1].split(",") if "--files" in sys.argv else FILES
    sh("git checkout -q -- . && git clean -fdq src", cwd=wt)
    cands = candidates(wt, files)
    random.Random(seed).shuffle(cands)
    if "--skip" in sys.argv:
        done = {r["desc"].split(": `")[0] + "|" + r["desc"].split("-> `")[-1] for r in json.load(open(sys.argv[sys.argv.index("--skip") + 1]))}
    else:
        done = set()
    print(f"{len(cands)} candidate mutants; running up to {maxn}", flush=True)
    res = []
    for (f, i, a, b, rep, kind) in cands:
        if len([r for r in res if r["status"] != "nocompile"]) >= maxn:
            break
        path = os.path.join(wt, f)
        lines = open(path).read().split("\n")
        orig = lines[i]
        lines[i] = orig[:a] + rep + orig[b:]
        open(path, "w").write("\n".join(lines))
        desc = f"{f}:{i+1}: `{orig.strip()[:70]}` -> `{lines[i].strip()[:70]}`"
        if f"{f}:{i+1}" + "|" + desc.split("-> `")[-1] in done:
            open(path, "w").write("\n".join(lines[:i] + [orig] + lines[i+1:]))
            continue
        t0 = time.time()
        c = sh("CARGO_TARGET_DIR=/tmp/t/mut_target cargo check --offline -q --features interruptible,graph_info,verif_hooks 2>&1 | grep -c '^error' ; "
               "CARGO_TARGET_DIR=/tmp/t/mut_target cargo check --offline -q 2>&1 | grep -c '^error'", cwd=wt)
        errs = [int(x) for x in c.stdout.split() if x.isdigit()]
        if sum(errs) > 0:
            res.append(dict(desc=desc, status="nocompile"))
            sh("git checkout -q -- .", cwd=wt)
            continue
        r = sh("./vcheck SMOKE --tier quick --no-design", cwd=vcopy, timeout=1500)
        viol = [l for l in r.stdout.splitlines() if l.startswith("VIOLATION") or l.startswith("  (")]
        drift = [l for l in r.stdout.splitlines() if l.startswith("SPEC-DRIFT")]
        tool = "TOOL ERROR" in r.stdout
        status = "KILLED" if viol else ("KILLED(drift)" if drift else ("KILLED(tool)" if tool else "SURVIVED"))
        det = (viol[1] if len(viol) > 1 else (drift[0] if drift else "")).strip()[:110]
        print(f"{status:14s} {time.time()-t0:4.0f}s {desc}  {det}", flush=True)
        res.append(dict(desc=desc, status=status, detail=det))
        sh("git checkout -q -- .", cwd=wt)
        sh("rm -f replays/SMOKE-*.json", cwd=vcopy)
    run = [r for r in res if r["status"] != "nocompile"]
    killed = [r for r in run if r["status"].startswith("KILLED")]
    print(f"mutants run: {len(run)}  killed: {len(killed)}  survived: {len(run)-len(killed)}  (did not compile: {len(res)-len(run)})")
    json.dump(res, open(os.path.join(vcopy, "mutation_results.json"), "w"), indent=1)


if __name__ == "__main__":
    main()
