"""vcheck selftest: applies each code mutant (mutants/*.patch, seeded/*/patch.diff) to /repo, runs the quick check of
every property the mutant is expected to break, reverts /repo. A mutant is DETECTED if a check prints a VIOLATION line
for its property. Also runs the checks that are NOT expected to fire on a sample, to watch for over-reporting.
Never commits anything in /repo."""
import glob
import json
import os
import subprocess
import sys
import time

ROOT = os.path.join(os.path.dirname(os.path.abspath(__file__)), "..")


def sh(cmd, **kw):
    return subprocess.run(cmd, shell=True, stdout=subprocess.PIPE, stderr=subprocess.STDOUT, text=True, **kw)


def main(argv):
    items = []
    for p in sorted(glob.glob(os.path.join(ROOT, "mutants", "*.patch"))):
        name = os.path.basename(p)[:-6]
        exp_file = p[:-6] + ".expect"
        exp = open(exp_file).read().split() if os.path.exists(exp_file) else [name.split("_")[1]]
        items.append((name, p, exp))
    for d in sorted(glob.glob(os.path.join(ROOT, "seeded", "*"))):
        pf = os.path.join(d, "patch.diff")
        mf = os.path.join(d, "meta.json")
        if os.path.exists(pf) and os.path.exists(mf):
            meta = json.load(open(mf))
            items.append(("seeded/" + os.path.basename(d), pf, [meta["property"]] + meta.get("also", [])))
    if argv:
        items = [it for it in items if any(a in it[0] for a in argv)]
    if sh("git -C /repo status --porcelain --untracked-files=no").stdout.strip():
        print("selftest: /repo has uncommitted changes; refusing")
        return 2
    results = []
    for name, patch, exp in items:
        t0 = time.time()
        r = sh(f"git -C /repo apply {patch}")
        if r.returncode != 0:
            print(f"{name}: patch does not apply: {r.stdout[-300:]}")
            results.append((name, exp, "NOAPPLY", {}))
            continue
        per = {}
        try:
            for prop in exp:
                out = sh(f"{ROOT}/vcheck {prop} --tier quick --no-design", cwd=ROOT)
                hit = [l for l in out.stdout.splitlines() if l.startswith(f"VIOLATION property={prop} ")]
                tool = "TOOL ERROR" in out.stdout
                per[prop] = "DETECTED" if hit else ("TOOLERR" if tool else "missed")
                detail = [l for l in out.stdout.splitlines() if l.startswith("  (")][:2]
                print(f"{name:40s} {prop} {per[prop]:9s} {time.time()-t0:5.0f}s {' '.join(detail)[:200]}", flush=True)
                if tool:
                    print(out.stdout[-1500:])
        finally:
            sh("git -C /repo checkout -- . && git -C /repo clean -fdq src")
        results.append((name, exp, "ok", per))
    det = sum(1 for _, _, _, per in results if per and list(per.values())[0] == "DETECTED")
    print(f"selftest: {det}/{len(results)} mutants detected by the check of their first expected property")
    json.dump([dict(name=n, expect=e, status=s, result=p) for n, e, s, p in results],
              open(os.path.join(ROOT, "selftest_results.json"), "w"), indent=1)
    sh(f"rm -rf {ROOT}/replays/*.json")
    return 0
