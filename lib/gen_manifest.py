#!/usr/bin/env python3
"""Writes /verif/MANIFEST.json from one table (kept in sync with lib/plan.py by hand)."""
import json, os
ROOT = os.path.join(os.path.dirname(os.path.abspath(__file__)), "..")
NOTE = ("Trusted: TLC; the single-threaded controlled executor of /verif/harness (gate futures, flag waker); futures' combinators and "
        "tokio's channels for waker registration inside the join-based bodies; the TLA+ transcriptions of interruptible 0.2.4 and "
        "petgraph Topo. Design level is exhaustive only within the stated bounds (N <= 3 quick / 4 thorough); code level covers the "
        "graphs, option sets and schedules the harness enumerated or sampled (counts in the evidence file), on two builds of fn_graph: "
        "features interruptible+graph_info(+verif_hooks) and the default feature set.")
TXT = {
 "C01": "Design: TLC proves, for all DAGs on <=3 (thorough 4) nodes and every interleaving of scheduler, queuer and environment, that no two path-related functions are in flight (Run, StreamApi) and that build() joins every conflicting pair by a path (Builder). Code: TLC evaluates the end-to-end predicate (declared accesses, not the built graph) at every hand-out of every recorded trace: all schedules of small graphs x declarations x option sets, plus seeded random larger ones.",
 "C02": "Design: invariant over all DAGs/interleavings that every started function has all transitive predecessors (successors in reverse) ended. Code: TLC checks it at each start/yield against the closure of the user edges recorded from the builder calls.",
 "C03": "Design: at-most-once as invariant; exactly-once at return of clean runs; channel capacity is a model parameter whose reduction fails. Code: same predicates on every start/return/stream-end event, incl. wide graphs (20-140 functions), graphs with 256+ predecessors per function and streams over 1024+ root functions.",
 "C04": "Design: invariant `idle and nothing in flight implies returned`, no panic action reachable, everything started ended at return, and <>returned under fairness, for graphs from 0 nodes. Code: idleness is observed (Pending and waker flag not set) at every poll of every schedule explored, incl. user futures that are ready on their first poll and tokio task polls whose cooperative budget runs out inside fn_graph's own channel/lock operations (budget sweeps); panics are caught and judged; both feature builds.",
 "C05": "Design: the poll function of stream() is transcribed with tokio's waker registration; invariant NoStall after every Pending poll over all poll/drop interleavings (all DAGs on <=3, thorough 4-5 functions), end-exactness, liveness under a fair consumer. Code: every interleaving of polls and FnRef drops for small graphs, incl. a second consumer task taking over with its own waker; random, sequential and batching consumers on graphs up to 140 functions, also inside a tokio runtime (cooperative budget); every poll and drop is additionally compared with the model's predicted outcome and waker flag (TraceStream).",
 "C06": "Design: invariant at idle states of unlimited, unsignalled, failure-free runs; Builder invariant that every non-user edge is a Data edge between conflicting functions. Code: evaluated at every observed quiescent point against the built edges the code reports -- of the concurrent calls, and of stream*() (idle stream with a function whose predecessors' FnRefs were all dropped).",
 "C07": "Design: invariants for every failing subset (<=2-3) of every DAG: no descendant of a failed function started, errors = failed at return, try_fold stops. Code: same on every trace of the try APIs with failing functions at every position, incl. functions failing on their first poll and failures coinciding with an exhausted tokio budget.",
 "C08": "Design: InterruptibleStream transcribed (IStream, also checked alone over an arbitrary inner stream); bound on functions handed out by the ready stream after the signal for every signal position incl. mid-poll and pre-pending; the bound on STARTS is shown to fail for the for_each bodies under a mid-poll signal (expected-to-fail design run). Code: signal fired at every between-poll point of every schedule and from inside completing user futures, senders dropped early, tokio budget on; TLC counts starts after the signal. One known finding (mid-poll signal, for_each bodies) is listed in known_findings.json and printed as KNOWN-FINDING.",
 "C09": "Design: outcome fields vs observation history at return on every exit path. Code: `return` event compared by TLC with the start events of the same run.",
 "C10": "Design: |running| <= limit invariant, completion under every limit (liveness cfg). Code: checked at each start; completion through the clean-run clause.",
 "C11": "Design: the augmenter loop transcribed; no-panic, acyclic, user edges kept, Data only between conflicting, every conflict ordered, for all labelled DAGs x declarations in the bound. Code: one builder run per input, `build` event judged by TLC.",
 "C12": "Design: direction rule and no-redundant-edge as invariants; algorithm = functional twin. Code: judged on `build` events and on `==` of same / one-edit call sequences.",
 "C13": "Design: terminal ranks = longest chain for every child visiting order. Code: `ranks()` compared by TLC with LongestChain of the accepted user edges.",
 "C14": "Design: petgraph Topo transcribed, every neighbour order, failing position. Code: every sequential API on every builder input, one failing position per input.",
 "C15": "Design: two Run instances over one graph, second starts after return or abort of the first; frame property. Code: histories of 2-3 (a fifth of them 5-9) runs incl. aborted ones; each run judged from a fresh abstract state and re-executed alone on a fresh graph, traces compared event by event by TLC.",
 "C16": "Design: all call sequences (<=3-4 calls, batches <=2) over 3 functions; rejection iff closes a cycle w.r.t. the closure before the call. Code: result of each recorded call compared with Build!ApplyEdge(s).",
 "C17": "Design: GraphInfo is the built edge sequence + mapped nodes (Build twin); Topo for iter. Code: from_graph, serde_json round trip, iter/iter_rev recorded and judged. The codec itself is not modelled.",
 "C18": "Design: pop bound n^2+n invariant for every DAG/child order (N<=3-4) and K6/K7; the as-found push rule fails at K7. Code: hook counter of queue pops on K_n (n<=14/18), layered, random dense graphs.",
 "C20": "Design: two Run instances, all interleavings, frame property. Code: two overlapping calls on one &FnGraph driven by one executor, per-run abstract state, plus run-alone re-execution compared by TLC.",
}
checks = []
for pid in [f"C{i:02d}" for i in range(1, 21) if i != 19]:
    checks.append(dict(
        property_id=pid,
        quick_cmd=f"./vcheck {pid} --tier quick",
        thorough_cmd=f"./vcheck {pid} --tier thorough",
        evidence_file=f"/verif/evidence/{pid}.json",
        replay_cmd_template="./vcheck replay {path}",
        engine="tla-trace",
        level_claimed=dict(category="model_checking", text=TXT[pid], design_ref="DESIGN.md section 6 (" + pid + ")"),
        level_note=NOTE,
        technique="TLA+ design model checked by TLC + TLC trace validation of recorded implementation traces (Props evaluated per event) + replay of TLC-generated scenarios",
    ))
m = dict(
    version=1,
    setup_cmd=("cd /verif/harness && CARGO_NET_OFFLINE=true cargo build --release --offline --features hooks && "
               "CARGO_NET_OFFLINE=true cargo build --profile plain --offline --no-default-features --features hooks --target-dir target-plain"),
    hooks=dict(guard="verif_hooks (cargo feature of fn_graph)",
               enable="the harness depends on fn_graph by path with features interruptible, graph_info and (harness feature `hooks`) verif_hooks; every check runs `cargo build --release --offline --features hooks` in /verif/harness first, and a second build `--profile plain --no-default-features --features hooks --target-dir target-plain` of the same harness against fn_graph with its default features plus verif_hooks (no interruptible; release with debug assertions on)",
               baseline_off_cmd="cd /repo && cargo test --workspace --no-fail-fast --offline",
               source_commits=["427534a"], add_only=True),
    engines=[dict(name="tla-trace", path="/verif/vcheck", serves_properties=[c["property_id"] for c in checks],
                  kind_free_text="TLA+ specification (spec/*.tla): design models checked by TLC against Props; Rust controlled executor records traces of the real code; TLC (TraceMonitor) evaluates Props on every event; TLC-printed scenarios replayed on the code")],
    checks=checks,
    not_applicable=[dict(property_id="C19", reason="Send/Sync of FnGraph, FnRef, streams and call futures is decided by the Rust type checker (auto-trait inference on opaque types); there is no state, transition or trace for a TLA+ specification to describe or for trace validation to observe.")],
    notes="See DESIGN.md. Verdicts come only from TLC evaluating spec/Props.tla on implementation traces; hook-level mismatches are SPEC-DRIFT notes, never VIOLATION lines.",
)
json.dump(m, open(os.path.join(ROOT, "MANIFEST.json"), "w"), indent=1)
print("MANIFEST.json written:", len(checks), "checks")
