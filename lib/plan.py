"""What each property check runs: design-level TLC jobs, scenario (spec -> impl) jobs, harness families,
which monitor ids are reported. Pure data + config-file generation; no verdict logic."""
import os

ASSUMPTIONS = [
    "TLC 1.8 evaluates the TLA+ modules faithfully; the trace monitor (spec/TraceMonitor.tla) is the only source of verdicts",
    "events are direct observations made by the single-threaded controlled executor of /verif/harness "
    "(closure invoked, future returned, waker flag after each poll, returned value, public fields); no state is inferred",
    "futures' fold/for_each_concurrent/FuturesUnordered and tokio's mpsc/RwLock register wakers correctly (trusted); "
    "idleness is nevertheless observed on the code (Pending and waker flag not set), not assumed",
    "interruptible 0.2.4 and petgraph 0.8.3 Topo are transcribed in spec/IStream.tla and spec/SeqIter.tla; third-party changes are out of scope",
    "signals and FnRef drops are driven between polls (one thread); mid-poll arrivals are covered at the design level only (EnvMode = async)",
]

RUN_DEV = dict(ReleaseAt=0, DoneAtStart=False, RevIncoming=False, Cap=0, EmptyRelease=True, DropOnInterrupt=True,
               DropOnError=True, ResultCap=0, OneRelease=False, IgnoreLimit=False)
RUN_INVS = ["TypeOK", "Inv_C01", "Inv_C02", "Inv_C03", "Inv_C04", "Inv_C06", "Inv_C07", "Inv_C08", "Inv_C09", "Inv_C10"]


def tla(v):
    if isinstance(v, bool):
        return "TRUE" if v else "FALSE"
    if isinstance(v, str):
        return '"%s"' % v
    if isinstance(v, (set, frozenset)):
        return "{" + ", ".join(tla(x) for x in sorted(v)) + "}"
    return str(v)


def write_cfg(path, consts, invariants=(), properties=(), view=None, spec="Spec"):
    lines = [f"SPECIFICATION {spec}", "CONSTANTS"]
    lines += [f"  {k} = {tla(v)}" for k, v in consts.items()]
    if invariants:
        lines.append("INVARIANTS " + " ".join(invariants))
    for p in properties:
        lines.append(f"PROPERTY {p}")
    if view:
        lines.append(f"VIEW {view}")
    lines.append("CHECK_DEADLOCK FALSE")
    os.makedirs(os.path.dirname(path), exist_ok=True)
    open(path, "w").write("\n".join(lines) + "\n")
    return path


def run_consts(N, api, order="fwd", limit=0, strategy="none", k=0, include=True, pre=False, maxfail=0, control=False,
               env="async", inside=False, **dev):
    c = dict(N=N, Api=api, Control=control, Order=order, Limit=limit, Strategy=strategy, K=k, Include=include, PreSig=pre,
             MaxFail=maxfail, EnvMode=env, SignalInside=inside)
    d = dict(RUN_DEV)
    d.update(dev)
    c.update(d)
    return c


def job(module, name, consts, invariants=(), properties=(), view=None, spec="Spec", workers=2, timeout=1500, heap="4g",
        expect="pass", **kw):
    return dict(module=module + ".tla", name=name, consts=consts, invariants=list(invariants), properties=list(properties),
                view=view, spec=spec, workers=workers, timeout=timeout, heap=heap, expect=expect, **kw)


# option sets of the Run sweep: (name, kwargs)
RUN_SETS = [
    ("fe_finish", dict(api="for_each", strategy="finish")),
    ("fe_l1_polln1_x", dict(api="for_each", limit=1, strategy="poll_n", k=1, include=False)),
    ("fe_l2_none", dict(api="for_each", limit=2)),
    ("fe_rev_polln2", dict(api="for_each", order="rev", strategy="poll_n", k=2)),
    ("fe_ignore", dict(api="for_each", strategy="ignore")),
    ("fe_finish_pre", dict(api="for_each", strategy="finish", pre=True)),
    ("tfe_finish_x", dict(api="try_for_each", strategy="finish", include=False, maxfail=2)),
    ("tfe_ctl_l1_polln1", dict(api="try_for_each", control=True, limit=1, strategy="poll_n", k=1, maxfail=2)),
    ("tfe_rev_none", dict(api="try_for_each", order="rev", maxfail=3)),
    ("fold_finish", dict(api="fold", strategy="finish")),
    ("fold_rev_polln1_x", dict(api="fold", order="rev", strategy="poll_n", k=1, include=False)),
    ("fold_polln2_pre", dict(api="fold", strategy="poll_n", k=2, pre=True)),
    ("tfold_finish", dict(api="try_fold", strategy="finish", maxfail=1)),
    ("tfold_polln0", dict(api="try_fold", strategy="poll_n", k=0, maxfail=1)),
    ("fe_l2_polln1_inside", dict(api="for_each", limit=2, strategy="poll_n", k=1, inside=True)),
    ("fold_finish_inside", dict(api="fold", strategy="finish", inside=True)),
]
RUN_SETS_MORE = [
    ("fe_l3_finish_x", dict(api="for_each", limit=3, strategy="finish", include=False)),
    ("fe_rev_polln0", dict(api="for_each", order="rev", strategy="poll_n", k=0)),
    ("fe_polln1_pre", dict(api="for_each", strategy="poll_n", k=1, pre=True)),
    ("tfe_l2_polln2_x", dict(api="try_for_each", limit=2, strategy="poll_n", k=2, include=False, maxfail=2)),
    ("tfe_ctl_rev_finish", dict(api="try_for_each", control=True, order="rev", strategy="finish", maxfail=2)),
    ("tfe_ignore", dict(api="try_for_each", strategy="ignore", maxfail=2)),
    ("fold_none", dict(api="fold")),
    ("fold_ignore", dict(api="fold", strategy="ignore")),
    ("tfold_rev_polln1_x", dict(api="try_fold", order="rev", strategy="poll_n", k=1, include=False, maxfail=1)),
    ("tfold_finish_pre", dict(api="try_fold", strategy="finish", pre=True, maxfail=1)),
]


def run_sweep(tier, select=None, N=None):
    sets = RUN_SETS + (RUN_SETS_MORE if tier == "thorough" else [])
    n = N or (4 if tier == "thorough" else 3)
    out = []
    for name, kw in sets:
        if select and not select(kw):
            continue
        kw = dict(kw)
        big = n >= 4 and kw.get("api") == "try_for_each"
        if big:
            # every failing subset of size <= 2 on every 4-node DAG is tens of millions of states per option set:
            # N = 4 with one failure, and N = 3 with the full failure budget
            out.append(job("Run", f"run_{name}_n3", run_consts(3, **kw), RUN_INVS, view="View", workers=2, heap="3g"))
            kw["maxfail"] = 1
        out.append(job("Run", f"run_{name}_n{n}", run_consts(n, **kw), RUN_INVS, view="View",
                       workers=5 if tier == "thorough" else 2, heap="6g" if tier == "thorough" else "3g",
                       coverage=tier != "thorough", timeout=2400))
    return out


ITEM_INVS = ["TypeOK", "Inv_NoFailedReported", "Inv_ClosedAtEnd", "Inv_Errors", "Inv_Serial"]


def item_jobs(tier, expect_mutant):
    """the RwLock<Option<Sender>> protocol of the item futures with every await as a suspension point (spec/ItemFuture.tla):
    the code's protocol passes and terminates; closing with try_write (seeded defects C07_c / C08_c) must fail"""
    m = 4 if tier == "thorough" else 3
    return [job("ItemFuture", f"itemfuture_m{m}", dict(M=m, CloseMode="write_await"), ITEM_INVS, properties=["Termination"],
                spec="LiveSpec", workers=2, heap="2g"),
            job("ItemFuture", "itemfuture_mut_try_write", dict(M=3, CloseMode="try_write"), [expect_mutant], workers=2, heap="2g",
                expect=expect_mutant)]


def run_live(tier):
    n = 3 if tier == "thorough" else 2
    out = []
    for name, kw in [("fe_l1", dict(api="for_each", limit=1)), ("tfe_finish", dict(api="try_for_each", strategy="finish", maxfail=1)),
                     ("fold_polln1", dict(api="fold", strategy="poll_n", k=1))]:
        out.append(job("Run", f"live_{name}_n{n}", run_consts(n, **kw), [], properties=["Termination"], spec="LiveSpec", view=None,
                       workers=2, heap="3g"))
    return out


STREAM_DEV = dict(DrainDone="all", RegisterDone="always", EndEarly=0)
STREAM_INVS = ["TypeOK", "Inv_C01", "Inv_C02", "Inv_C03", "Inv_C05", "Inv_C08"]


def stream_consts(N, order="fwd", wrapped=False, strategy="none", k=0, pre=False, early=True, tasks=1, spurious=False, **dev):
    c = dict(N=N, Order=order, Wrapped=wrapped, Strategy=strategy, K=k, PreSig=pre, DropStreamEarly=early, Tasks=tasks, Spurious=spurious)
    d = dict(STREAM_DEV)
    d.update(dev)
    c.update(d)
    return c


def stream_sweep(tier, interrupting_only=False):
    n = 4 if tier == "thorough" else 3
    sets = [("plain_fwd", dict()), ("plain_rev", dict(order="rev")),
            ("int_finish", dict(wrapped=True, strategy="finish")),
            ("int_polln1_rev", dict(wrapped=True, strategy="poll_n", k=1, order="rev")),
            ("int_polln2_pre", dict(wrapped=True, strategy="poll_n", k=2, pre=True)),
            ("int_ignore", dict(wrapped=True, strategy="ignore")),
            # two consumer tasks with their own wakers, polling at any time (a second task taking over)
            ("plain_2tasks", dict(tasks=2, spurious=True)),
            ("int_finish_2tasks_rev", dict(wrapped=True, strategy="finish", order="rev", tasks=2, spurious=True))]
    if tier == "thorough":
        sets += [("int_finish_pre", dict(wrapped=True, strategy="finish", pre=True)),
                 ("int_polln0", dict(wrapped=True, strategy="poll_n", k=0)),
                 ("int_non", dict(wrapped=True, strategy="non"))]
    out = []
    if tier == "thorough" and not interrupting_only:
        # all 1 024 DAGs on five functions, every interleaving of polls and drops (no early stream drop)
        out.append(job("StreamApi", "stream_plain_fwd_n5", stream_consts(5, early=False), STREAM_INVS, workers=4, heap="8g",
                       coverage=False, timeout=2400))
    for name, kw in sets:
        if interrupting_only and not kw.get("wrapped"):
            continue
        out.append(job("StreamApi", f"stream_{name}_n{n}", stream_consts(n, **kw), STREAM_INVS, workers=3, heap="4g"))
    return out


def stream_mutants(tier):
    """deliberate deviations of the stream model that MUST fail (the design level notices this class of defect)"""
    return [job("StreamApi", "stream_mut_stale_registration", stream_consts(3, tasks=2, spurious=True, RegisterDone="stale"),
                STREAM_INVS, workers=2, heap="2g", expect="Inv_C05"),
            job("StreamApi", "stream_mut_drain_one", stream_consts(3, DrainDone="one"), STREAM_INVS, workers=2, heap="2g", expect="Inv_C05")]


def stream_live(tier):
    n = 3
    return [job("StreamApi", f"stream_live_n{n}", stream_consts(n, early=False), [], properties=["Ends"], spec="LiveSpec",
                workers=2, heap="3g")]


BUILDER_DEV = dict(PushRule="on_increase", ConflictMode="full", SkipSameRank=False, TieReverse=False, NoPathTest=False, RankMin=False)
BUILDER_INVS = ["TypeOK", "Inv_NoPanic", "Inv_C18", "Inv_C13", "Inv_Twin", "Inv_C11", "Inv_C12", "Inv_Forward"]


def builder_consts(N, types, shape="all", **dev):
    c = dict(N=N, Types=set(types), Shape=shape, ChildOrder="any")
    d = dict(BUILDER_DEV)
    d.update(dev)
    c.update(d)
    return c


def builder_sweep(tier):
    out = [job("Builder", "builder_n3_t1", builder_consts(3, [1]), BUILDER_INVS, workers=3),
           job("Builder", "builder_k6", builder_consts(6, [1], shape="complete"), BUILDER_INVS, workers=2)]
    if tier == "thorough":
        out += [job("Builder", "builder_n3_t2", builder_consts(3, [1, 2]), BUILDER_INVS, workers=6, heap="8g"),
                job("Builder", "builder_n4_t1", builder_consts(4, [1]), BUILDER_INVS, workers=6, heap="8g", timeout=3000),
                job("Builder", "builder_k7", builder_consts(7, [1], shape="complete"), BUILDER_INVS, workers=3)]
    return out


def calls_sweep(tier):
    c = dict(N=3, MaxCalls=4 if tier == "thorough" else 3, MaxBatch=2, AddInsteadOfUpdate=False)
    return [job("BuilderCalls", "calls", c, ["Inv_Dag", "Inv_C16_Edge", "Inv_C16_Batch", "Inv_AddFnFrame"], workers=6, heap="6g")]


def seq_sweep(tier):
    n = 4
    out = []
    for d in ("fwd", "rev"):
        for fail in ((0, 1, 2, 3) if tier == "thorough" else (0, 2)):
            out.append(job("SeqIter", f"seq_{d}_f{fail}", dict(N=n, Dir=d, FailAt=fail, IgnoreErr=False), ["Inv_C14"], workers=2, heap="2g"))
    return out


def multi_consts(overlap, a, b, N=2, maxfail=1, env="async"):
    def one(i, kw):
        return {f"Api{i}": kw.get("api", "for_each"), f"Control{i}": kw.get("control", False), f"Order{i}": kw.get("order", "fwd"),
                f"Limit{i}": kw.get("limit", 0), f"Strategy{i}": kw.get("strategy", "none"), f"K{i}": kw.get("k", 0),
                f"Include{i}": kw.get("include", True), f"PreSig{i}": kw.get("pre", False)}
    c = dict(N=N, MaxFail=maxfail, EnvMode=env, SignalInside=False, Overlap=overlap)
    c.update(one(1, a))
    c.update(one(2, b))
    return c


def multi_sweep(tier, overlap):
    pairs = [(dict(api="for_each", strategy="finish"), dict(api="try_for_each", order="rev", limit=1)),
             (dict(api="try_for_each", strategy="poll_n", k=1), dict(api="fold", strategy="finish", include=False))]
    if tier == "thorough":
        pairs += [(dict(api="fold", order="rev"), dict(api="for_each", limit=2, strategy="poll_n", k=0)),
                  (dict(api="try_fold", strategy="finish"), dict(api="try_for_each", control=True))]
    out = []
    for i, (a, b) in enumerate(pairs):
        out.append(job("MultiRun", f"multi_{'ov' if overlap else 'seq'}_{i}",
                       multi_consts(overlap, a, b, env="async" if tier == "thorough" else "quiescent"), ["Inv1", "Inv2", "FreshStart"],
                       properties=["Frame"], view="View", workers=4, heap="6g"))
    return out


def scenario_jobs(tier, select=None):
    """spec -> impl: bounded Run models in quiescent mode print every completed behaviour."""
    sets = [("fe_finish", dict(api="for_each", strategy="finish")),
            ("tfe_l1_polln1", dict(api="try_for_each", limit=1, strategy="poll_n", k=1, maxfail=1)),
            ("fold_rev_finish_x", dict(api="fold", order="rev", strategy="finish", include=False)),
            ("tfold_polln1", dict(api="try_fold", strategy="poll_n", k=1, maxfail=1))]
    if tier == "thorough":
        sets += [("fe_l2_rev", dict(api="for_each", limit=2, order="rev")),
                 ("tfe_ctl_finish_x", dict(api="try_for_each", control=True, strategy="finish", include=False, maxfail=2)),
                 ("fold_polln2", dict(api="fold", strategy="poll_n", k=2)),
                 ("fe_polln1_pre", dict(api="for_each", strategy="poll_n", k=1, pre=True))]
    out = []
    for name, kw in sets:
        if select and not select(kw):
            continue
        out.append(job("Run", f"scn_{name}", run_consts(3, env="quiescent", **kw), ["ScenarioOut"], workers=1, heap="3g"))
    return out


def scenario_from_model(o):
    """TLC's REPLAY record -> harness scenario."""
    if "runs" in o:
        return o
    calls = [dict(op="edge", kind="logic", a=e[0], b=e[1]) for e in o["edges"]]
    plain = o["strategy"] == "none" and o["order"] == "fwd" and o["include"]
    run = dict(api=o["api"], mut=(o["n"] % 2 == 1), control=o["control"], order=o["order"], limit=-1 if o["limit"] == 0 else o["limit"],
               strategy=o["strategy"], k=o["k"], include=o["include"], pre_signal=o["pre_signal"])
    run["with"] = not plain
    steps = [dict(op="call", run=1)]
    for s in o["steps"]:
        if s["op"] == "open":
            steps.append(dict(op="open", run=1, f=s["f"], ok=s["ok"], signal=bool(s.get("signal", False))))
        else:
            steps.append(dict(op="signal", run=1))
    return dict(id=o["id"], n=o["n"], calls=calls, phases=[dict(op="runs", runs=[run], steps=steps)],
                expect=dict(started=o["started"], kind=o["kind"], state=o["state"]))


# ---------------------------------------------------------------- per property

def fam(family, **kw):
    d = dict(family=family)
    d.update(kw)
    return d


def plan_for(prop, tier, seed):
    T = tier == "thorough"
    run_fams = [fam("runs_exh", shards=20 if T else 6, sample=8 if T else 24), fam("runs_rand", shards=4)]
    stream_fams = [fam("stream_exh", shards=16 if T else 4, sample=4), fam("stream_rand", shards=3)]
    builder_fams = [fam("builder_exh", shards=10 if T else 6, sample=1 if T else 6), fam("builder_rand", shards=3),
                    fam("builder_big", shards=4)]
    P = dict(design=[], scenarios=[], families=[], report={prop}, nontrivial_keys=[], rule="", exhaustive=T)

    def plain(focus=None, streams=False, runs=True):
        """the same families against fn_graph built WITHOUT `interruptible` (its default features): the schedulers of that
        build are separate code (no InterruptibleStream around the ready channel, other closure signatures)"""
        out = []
        kw = dict(focus=focus) if focus else {}
        if runs:
            out += [fam("runs_exh", shards=8 if T else 3, sample=8 if T else 40, plain=True, tag="p", **kw),
                    fam("runs_rand", shards=2, plain=True, tag="p", **kw), fam("wide", shards=1, plain=True, tag="p", **kw)]
        if streams:
            out += [fam("stream_exh", shards=10 if T else 2, sample=1 if T else 6, plain=True, tag="p"), fam("stream_rand", shards=1, plain=True, tag="p")]
        return out
    if prop == "C01":
        P["design"] = run_sweep(tier, lambda k: k["api"] in ("for_each", "try_for_each")) + stream_sweep(tier)[:3] + builder_sweep(tier)[:1]
        P["scenarios"] = scenario_jobs(tier, lambda k: k["api"] in ("for_each", "try_for_each"))
        P["families"] = [fam("runs_exh", shards=20 if T else 6, sample=8 if T else 24, focus="conflict"), fam("runs_rand", shards=4, focus="conflict"),
                         fam("stream_exh", shards=12 if T else 3, sample=4 if T else 6), fam("stream_rand", shards=2),
                         fam("builder_exh", shards=3, sample=2 if T else 24), fam("scale", shards=2, focus="types", tag="ty")]
        P["nontrivial_keys"] = ["handout_concurrent"]
        P["rule"] = ("every hand-out event (start / stream item) of every recorded trace is checked against all functions in flight; "
                     "non-trivial = distinct traces with a hand-out while another function is in flight (TLC-side counter)")
    elif prop == "C02":
        P["design"] = run_sweep(tier) + stream_sweep(tier)[:2]
        P["scenarios"] = scenario_jobs(tier)
        P["families"] = run_fams + stream_fams + [fam("scale", shards=2, focus="preds", tag="pr")]
        P["nontrivial_keys"] = ["handout_dependent"]
        P["rule"] = "non-trivial = distinct traces in which a function with at least one (transitive) dependency was handed out"
    elif prop == "C03":
        P["design"] = run_sweep(tier) + stream_sweep(tier)[:3]
        P["scenarios"] = scenario_jobs(tier)
        P["families"] = run_fams + stream_fams + [fam("wide", shards=3), fam("scale", shards=2, focus="preds", tag="pr"),
                                                  fam("scale", shards=1, focus="roots", tag="ro")]
        P["nontrivial_keys"] = ["handout"]
        P["rule"] = "non-trivial = distinct traces with at least one hand-out (at-most-once checked at each; exactly-once at return / stream end of clean runs)"
    elif prop == "C04":
        P["design"] = run_sweep(tier) + run_live(tier) + item_jobs(tier, "Inv_ClosedAtEnd")
        P["scenarios"] = scenario_jobs(tier)
        P["families"] = run_fams + [fam("wide", shards=3), fam("budget", shards=2, count=2000 if T else 300),
                                    fam("budget_exh", shards=8 if T else 3, sample=1 if T else 8)]
        P["nontrivial_keys"] = ["idle", "return"]
        P["rule"] = "non-trivial = distinct traces with an idle point (Pending, not woken) or a return; every poll, return, cancel and panic event is checked"
    elif prop == "C05":
        P["design"] = stream_sweep(tier) + stream_live(tier) + stream_mutants(tier)
        P["families"] = [fam("stream_exh", shards=28 if T else 6, sample=1), fam("stream_rand", shards=4), fam("wide", shards=2, focus="stream"),
                         fam("scale", shards=1, focus="roots", tag="ro")]
        P["nontrivial_keys"] = ["stall_check_nontrivial", "dropref_while_pending"]
        P["rule"] = "non-trivial = distinct traces with a Pending poll while functions are unyielded, or an FnRef drop after a Pending poll"
    elif prop == "C06":
        P["design"] = run_sweep(tier, lambda k: k["api"] in ("for_each", "try_for_each")) + stream_sweep(tier)[:2] + builder_sweep(tier)[:1]
        P["scenarios"] = scenario_jobs(tier, lambda k: k["api"] in ("for_each", "try_for_each"))
        P["families"] = [fam("runs_exh", shards=20 if T else 6, sample=8 if T else 12, focus="eager"), fam("runs_rand", shards=4, focus="eager"),
                         fam("builder_exh", shards=3, sample=2 if T else 12), fam("wide", shards=3, focus="eager"),
                         fam("scale", shards=2, focus="types", tag="ty"),
                         # the quantifier includes stream*(): an idle stream with a startable function (C05's stall, read as eagerness)
                         fam("stream_exh", shards=14 if T else 3, sample=2 if T else 6), fam("stream_rand", shards=2)]
        P["nontrivial_keys"] = ["idle_eager_nontrivial", "build_data_edge"]
        P["rule"] = "non-trivial = distinct traces with an idle point of an unlimited, unsignalled, failure-free concurrent call with unstarted functions, or a build with data edges"
    elif prop == "C07":
        P["design"] = run_sweep(tier, lambda k: k["api"].startswith("try")) + item_jobs(tier, "Inv_NoFailedReported")
        P["scenarios"] = scenario_jobs(tier, lambda k: k["api"].startswith("try"))
        P["families"] = [fam("runs_exh", shards=20 if T else 6, sample=8 if T else 8, focus="try"), fam("runs_rand", shards=4, focus="try"),
                         fam("wide", shards=3, focus="try"), fam("budget", shards=2, count=2000 if T else 300, focus="try"),
                         fam("budget_exh", shards=8 if T else 3, sample=1 if T else 6, focus="try")]
        P["nontrivial_keys"] = ["return_failed"]
        P["rule"] = "non-trivial = distinct traces in which at least one function failed"
    elif prop == "C08":
        P["design"] = (run_sweep(tier, lambda k: k.get("strategy", "none") != "none") + stream_sweep(tier, interrupting_only=True)
                       + [job("IStreamMC", "istream", dict(MaxK=3, MaxItems=6),
                              ["Inv_C08", "Inv_EndsAfterInterrupt", "Inv_Transparent", "Inv_IntItemOnlyFinish", "Inv_Callbacks"], workers=2, heap="2g"),
                          # the known finding, reproduced at design level: the bound on STARTS fails for the for_each bodies
                          # when the signal arrives in the middle of a poll
                          job("Run", "finding_c08_starts", run_consts(3, "for_each", strategy="finish"), ["Inv_C08", "Inv_C08_Starts"],
                              view="View", workers=2, heap="3g", expect="Inv_C08_Starts")]
                       + item_jobs(tier, "Inv_ClosedAtEnd"))
        P["scenarios"] = scenario_jobs(tier, lambda k: k.get("strategy", "none") != "none")
        P["families"] = [fam("runs_exh", shards=20 if T else 6, sample=8 if T else 12, focus="int"), fam("runs_rand", shards=4, focus="int"),
                         fam("stream_exh", shards=16 if T else 3, sample=2 if T else 4, focus="int"), fam("stream_rand", shards=2, focus="int"),
                         fam("wide", shards=3, focus="int"), fam("budget", shards=2, count=2000 if T else 300, focus="int"),
                         # histories whose runs share one InterruptibilityState (reborrow): a signal sent during one run is pending
                         # when the next begins
                         fam("multi_seq", shards=2, count=6000 if T else 600, focus="share", tag="sh"),
                         fam("budget_exh", shards=8 if T else 3, sample=1 if T else 6, focus="int")]
        P["nontrivial_keys"] = ["return_interruptible", "handout_after_signal"]
        P["rule"] = "non-trivial = distinct traces of an interrupting strategy in which a signal was sent or pending"
    elif prop == "C09":
        P["design"] = run_sweep(tier)
        P["scenarios"] = scenario_jobs(tier)
        P["families"] = run_fams + [fam("wide", shards=3), fam("scale", shards=3, focus="stop", tag="st")]
        P["nontrivial_keys"] = ["return"]
        P["rule"] = "non-trivial = distinct traces that returned a StreamOutcome"
    elif prop == "C10":
        P["design"] = run_sweep(tier, lambda k: k.get("limit", 0) >= 1 or k["api"] in ("fold", "try_fold")) + run_live(tier)[:1]
        P["scenarios"] = scenario_jobs(tier, lambda k: k.get("limit", 0) >= 1)
        P["families"] = [fam("runs_exh", shards=20 if T else 6, sample=8 if T else 10, focus="limit"), fam("runs_rand", shards=4, focus="limit"),
                         fam("wide", shards=3, focus="limit")]
        P["nontrivial_keys"] = ["handout_limited"]
        P["rule"] = "non-trivial = distinct traces with hand-outs under a limit >= 1 (folds: limit 1)"
    elif prop in ("C11", "C12", "C13"):
        P["design"] = builder_sweep(tier)
        P["families"] = (builder_fams + ([fam("builder_calls", shards=3, sample=4)] if prop == "C12" else [])
                         + ([fam("scale", shards=2, focus="types", tag="ty")] if prop != "C13" else []))
        P["nontrivial_keys"] = {"C11": ["build_conflict"], "C12": ["build_conflict", "eq"], "C13": ["build_user_edges"]}[prop]
        P["rule"] = "non-trivial = distinct builder inputs with conflicting declarations (C11/C12), `==` comparisons (C12), or user edges (C13)"
    elif prop == "C14":
        P["design"] = seq_sweep(tier)
        P["families"] = builder_fams
        P["nontrivial_keys"] = ["seq"]
        P["rule"] = "non-trivial = sequential API calls recorded (12 per builder input, one failing position each)"
    elif prop == "C15":
        P["design"] = multi_sweep(tier, False)
        P["families"] = [fam("multi_seq", shards=6, count=20000 if T else 1500), fam("multi_exh", shards=6, sample=3 if T else 40, focus="seq")]
        P["report"] = {"*"}
        P["nontrivial_keys"] = ["fresh_compare"]
        P["rule"] = "histories of 2-3 runs on one graph value; non-trivial = runs re-executed alone on a freshly built graph and compared event by event"
    elif prop == "C16":
        P["design"] = calls_sweep(tier)
        P["families"] = [fam("builder_calls", shards=6, sample=1 if T else 2), fam("builder_rand", shards=2), fam("builder_big", shards=3)]
        P["nontrivial_keys"] = ["edge_call", "edges_call"]
        P["rule"] = "non-trivial = builder edge calls recorded (results compared by TLC with Build!ApplyEdge)"
    elif prop == "C17":
        P["design"] = builder_sweep(tier)[:1] + seq_sweep(tier)[:2]
        P["families"] = builder_fams
        P["nontrivial_keys"] = ["graph_info"]
        P["rule"] = "non-trivial = GraphInfo values recorded (from_graph, serde_json round trip, iter / iter_rev)"
    elif prop == "C18":
        P["design"] = builder_sweep(tier)
        P["families"] = [fam("dense", shards=2), fam("builder_rand", shards=3), fam("builder_big", shards=3)]
        P["nontrivial_keys"] = ["build_user_edges"]
        P["rule"] = "non-trivial = builds of graphs with edges; the hook counter of rank-queue pops is compared with n*n+n"
    elif prop == "C20":
        P["design"] = multi_sweep(tier, True)
        P["families"] = [fam("multi_overlap", shards=6, count=20000 if T else 1500), fam("multi_exh", shards=6, sample=3 if T else 160, focus="overlap"),
                         fam("multi_threads", shards=4 if T else 2, count=8000 if T else 800)]
        P["report"] = {"*"}
        P["nontrivial_keys"] = ["fresh_compare"]
        P["rule"] = ("two or three overlapping runs on one graph, interleaved in one task or each on its own OS thread (turn-taking); "
                     "non-trivial = runs re-executed alone on a fresh graph and compared event by event")
    elif prop == "SMOKE":
        # not a property: a cross-section of every family, any failed predicate reported (used by lib/mutate.py)
        P["families"] = [fam("runs_exh", shards=4, sample=60), fam("runs_rand", shards=2), fam("wide", shards=2),
                         fam("stream_exh", shards=2, sample=12), fam("stream_rand", shards=1),
                         fam("multi_seq", shards=2, count=600), fam("multi_overlap", shards=1, count=400), fam("multi_threads", shards=1, count=300),
                         fam("budget_exh", shards=2, sample=24), fam("scale", shards=2),
                         fam("builder_exh", shards=2, sample=20), fam("builder_rand", shards=1), fam("builder_calls", shards=2, sample=8),
                         fam("builder_big", shards=1), fam("dense", shards=1),
                         fam("runs_rand", shards=1, plain=True, tag="p"), fam("stream_rand", shards=1, plain=True, tag="p"),
                         fam("builder_rand", shards=1, plain=True, tag="p")]
        P["report"] = {"*"}
        P["rule"] = "smoke"
    else:
        raise SystemExit(f"unknown property {prop}")
    # ---- the build of fn_graph without `interruptible`
    if prop == "C01":
        P["families"] += plain("conflict", streams=True)
    elif prop in ("C02", "C03"):
        P["families"] += plain(None, streams=True)
    elif prop == "C04":
        P["families"] += plain(None) + [fam("budget_exh", shards=4 if T else 2, sample=2 if T else 16, plain=True, tag="p")]
    elif prop == "C05":
        P["families"] += plain(runs=False, streams=True)
    elif prop in ("C06", "C07", "C10"):
        P["families"] += plain({"C06": "eager", "C07": "try", "C10": "limit"}[prop], streams=prop == "C06")
    elif prop == "C09":
        P["families"] += plain(None)
    elif prop in ("C11", "C12", "C13", "C14", "C16", "C17", "C18"):
        # the builder and the sequential APIs do not depend on the feature; the second build has debug assertions ON
        P["families"] += [fam("builder_rand", shards=1, plain=True, tag="p"), fam("builder_big", shards=1, plain=True, tag="p")]
        if prop == "C16":
            P["families"] += [fam("builder_calls", shards=2, sample=2 if T else 8, plain=True, tag="p")]
        if prop == "C18":
            P["families"] += [fam("dense", shards=1, plain=True, tag="p")]
    elif prop == "C15":
        P["families"] += [fam("multi_seq", shards=2, count=5000 if T else 500, plain=True, tag="p")]
    elif prop == "C20":
        P["families"] += [fam("multi_overlap", shards=2, count=5000 if T else 500, plain=True, tag="p"),
                          fam("multi_threads", shards=1, count=2000 if T else 300, plain=True, tag="p")]
    P["exhaustive"] = bool(T and all(f.get("sample", 1) == 1 for f in P["families"] if f["family"].endswith("_exh")))
    # hook-level conformance (impl -> design model): a rotating selection of option sets per property
    off = (int(prop[1:]) if prop[1:].isdigit() else 0) * 7 + seed
    nrun = 24 if T else 5
    if prop in ("C01", "C02", "C03", "C04", "C06", "C07", "C08", "C09", "C10"):
        P["impl"] = [dict(kind="run", index=off + 13 * i, sample=1 if T else 2) for i in range(nrun)]
    if prop in ("C01", "C02", "C03", "C05", "C08"):
        P["impl"] = P.get("impl", []) + [dict(kind="stream", index=off + i) for i in range(15 if (T or prop == "C05") else 3)]
    # the same hook-level conformance for the default-feature build (TraceRun with ItemHook = FALSE)
    if prop in ("C02", "C03", "C04", "C07", "C09", "C10"):
        P["impl"] = P.get("impl", []) + [dict(kind="run", index=off + 5 + 29 * i, sample=1 if T else 2, plain=True) for i in range(8 if T else 2)]
    if prop in ("C03", "C05"):
        P["impl"] = P.get("impl", []) + [dict(kind="stream", index=off + 2 * i, plain=True) for i in range(4 if T else 1)]
    if prop in ("C11", "C12", "C13", "C18"):
        P["impl"] = [dict(kind="builder", family="builder_exh", sample=4 if T else 40), dict(kind="builder", family="dense", max_n=14 if T else 12),
                     dict(kind="builder", family="builder_rand", count=400 if T else 100)]
    return P
