//! Exploration of driver choices by re-execution: exhaustive depth-first, or
//! seeded random walks.

use serde_json::Value;

use crate::phases::run_scenario;
use crate::runs::ExploreOpts;
use crate::scenario::{Phase, Scenario, Step};

pub struct Rng(pub u64);

impl Rng {
    pub fn new(seed: u64) -> Self {
        Rng(seed.wrapping_mul(0x9E3779B97F4A7C15) ^ 0xD1B54A32D192ED03)
    }
    pub fn next(&mut self) -> u64 {
        self.0 = self.0.wrapping_add(0x9E3779B97F4A7C15);
        let mut z = self.0;
        z = (z ^ (z >> 30)).wrapping_mul(0xBF58476D1CE4E5B9);
        z = (z ^ (z >> 27)).wrapping_mul(0x94D049BB133111EB);
        z ^ (z >> 31)
    }
    pub fn below(&mut self, n: usize) -> usize {
        if n == 0 {
            0
        } else {
            (self.next() % n as u64) as usize
        }
    }
    pub fn chance(&mut self, num: u64, den: u64) -> bool {
        self.next() % den < num
    }
    pub fn pick<'a, T>(&mut self, v: &'a [T]) -> &'a T {
        &v[self.below(v.len())]
    }
}

fn with_steps(base: &Scenario, steps: &[Step]) -> Scenario {
    let mut s = base.clone();
    if let Some(Phase::Runs { steps: st, .. }) = s.phases.last_mut() {
        *st = steps.to_vec();
    }
    s
}

/// Every maximal sequence of driver choices of `base` (whose last phase must be
/// `Runs`), by depth-first re-execution. Returns (leaves, executions, truncated).
pub fn exhaustive(
    base: &Scenario,
    x: &ExploreOpts,
    hooks: bool,
    max_depth: usize,
    max_leaves: u64,
    emit: &mut dyn FnMut(&Scenario, &[Value]),
) -> (u64, u64, bool) {
    let mut stack: Vec<Vec<Step>> = vec![vec![]];
    let (mut leaves, mut execs) = (0u64, 0u64);
    let mut truncated = false;
    while let Some(steps) = stack.pop() {
        let scn = with_steps(base, &steps);
        let r = run_scenario(&scn, hooks, x);
        execs += 1;
        if r.enabled.is_empty() || steps.len() >= max_depth {
            if !r.enabled.is_empty() {
                truncated = true;
            }
            let mut scn = scn;
            scn.id = format!("{}-{}", base.id, leaves);
            let mut trace = r.trace;
            if let Some(first) = trace.first_mut() {
                first["scn"] = Value::String(scn.id.clone());
            }
            emit(&scn, &trace);
            leaves += 1;
            if leaves >= max_leaves {
                truncated = true;
                break;
            }
            continue;
        }
        for c in r.enabled.into_iter().rev() {
            let mut s = steps.clone();
            s.push(c);
            stack.push(s);
        }
    }
    (leaves, execs, truncated)
}

fn weight_of(c: &Step, x: &ExploreOpts) -> u64 {
    match c {
        Step::Signal { .. } => 2,
        Step::Abort { .. } => 1,
        Step::DropStream { .. } => 1,
        Step::Open { ok: false, .. } => {
            if x.fail_bias {
                24
            } else {
                3
            }
        }
        Step::Open { signal: true, .. } => 2,
        Step::Call { .. } => 6,
        _ => 8,
    }
}

/// One random walk in ONE execution (no re-execution per step): for graphs too large for `random_walk`.
/// Not for tokio mode (stream steps would be grouped differently on replay).
pub fn random_walk_online(base: &Scenario, x: &ExploreOpts, hooks: bool, max_depth: usize, rng: &mut Rng) -> (Scenario, Vec<Value>) {
    let mut depth = 0usize;
    let mut choose = |enabled: &[Step]| -> Option<Step> {
        if depth >= max_depth {
            return None;
        }
        depth += 1;
        let total: u64 = enabled.iter().map(|c| weight_of(c, x)).sum();
        let mut t = rng.next() % total;
        for c in enabled {
            let wgt = weight_of(c, x);
            if t < wgt {
                return Some(c.clone());
            }
            t -= wgt;
        }
        enabled.last().cloned()
    };
    let (r, steps) = crate::phases::run_scenario_with(base, hooks, x, Some(&mut choose));
    (with_steps(base, &steps), r.trace)
}

/// One random maximal walk. `weights` biases the choice per step kind.
pub fn random_walk(
    base: &Scenario,
    x: &ExploreOpts,
    hooks: bool,
    max_depth: usize,
    rng: &mut Rng,
) -> (Scenario, Vec<Value>) {
    let mut steps: Vec<Step> = vec![];
    loop {
        let scn = with_steps(base, &steps);
        let r = run_scenario(&scn, hooks, x);
        if r.enabled.is_empty() || steps.len() >= max_depth {
            return (scn, r.trace);
        }
        // weight: signals and aborts are rarer than completions
        let weights: Vec<u64> = r.enabled.iter().map(|c| weight_of(c, x)).collect();
        let total: u64 = weights.iter().sum();
        let mut t = rng.next() % total;
        let mut idx = 0;
        for (i, wgt) in weights.iter().enumerate() {
            if t < *wgt {
                idx = i;
                break;
            }
            t -= wgt;
        }
        steps.push(r.enabled[idx].clone());
    }
}
