//! Scenario families: which graphs, declarations, option sets and schedules are
//! generated for which purpose. Everything here only *produces* behaviours.

use serde_json::Value;

use crate::explore::{exhaustive, random_walk, random_walk_online, Rng};
use crate::phases::run_scenario;
use crate::runs::ExploreOpts;
use crate::scenario::{BCall, Phase, RunCfg, Scenario};
use crate::Out;

pub struct GenParams {
    pub family: String,
    pub tier: String,
    pub seed: u64,
    pub shard: u64,
    pub shards: u64,
    pub count: u64,
    /// keep 1 of `sample` (graph, option set) combinations, chosen by hash with the seed
    pub sample: u64,
    pub max_n: usize,
    pub hooks: bool,
    /// restrict option sets: "" | try | int | limit | eager | conflict | stream
    pub focus: String,
    /// impl_* families: index into call_cfgs(true) / stream_cfgs()
    pub cfg_index: i64,
}

/// StreamApi.tla models the consumer tasks (Tasks = {1, 2}): hook-level traces may contain polls by a second task.
const MULTI_WAKER_IN_SPEC: bool = true;

fn focus_ok(c: &RunCfg, focus: &str) -> bool {
    let concurrent = c.api.ends_with("for_each");
    match focus {
        "try" => c.is_try(),
        "int" => c.has_channel(),
        "limit" => (concurrent && c.limit >= 1) || c.api.ends_with("fold"),
        "eager" => concurrent && c.limit <= 0,
        "conflict" => concurrent || c.is_stream(),
        "stream" => c.is_stream(),
        _ => true,
    }
}

/// Appends, for every run of a multi-run scenario, the same run executed alone on a freshly
/// built graph (same driver steps), bracketed by fresh_begin / fresh_end. TLC compares.
fn append_fresh(scn: &Scenario, trace: &mut Vec<Value>, mode: &str) {
    let (runs, steps) = match scn.phases.last() {
        Some(Phase::Runs { runs, steps }) => (runs.clone(), steps.clone()),
        _ => return,
    };
    if trace.iter().any(|v| v["ev"] == "panic" || v["ev"] == "diverged") {
        return;
    }
    let mut first = true;
    for r in 1..=runs.len() {
        let mine: Vec<crate::scenario::Step> = steps
            .iter()
            .filter_map(|st| {
                use crate::scenario::Step::*;
                Some(match st {
                    Call { run } if *run == r => Call { run: 1 },
                    Open { run, f, ok, defer, signal } if *run == r => Open { run: 1, f: *f, ok: *ok, defer: *defer, signal: *signal },
                    Signal { run, defer } if *run == r => Signal { run: 1, defer: *defer },
                    Poll { run, w } if *run == r => Poll { run: 1, w: *w },
                    Drop { run, f } if *run == r => Drop { run: 1, f: *f },
                    DropStream { run } if *run == r => DropStream { run: 1 },
                    Abort { run } if *run == r => Abort { run: 1 },
                    _ => return None,
                })
            })
            .collect();
        if mine.is_empty() {
            continue;
        }
        let mut solo = scn.clone();
        solo.threads = false;
        // in-poll signals are recorded with fn_graph's own events, so that the monitor can tell a function
        // handed out before the signal from one handed out after it
        let inside = mine.iter().any(|st| matches!(st, crate::scenario::Step::Open { signal: true, .. }));
        let mut solo_cfg = runs[r - 1].clone();
        if solo_cfg.share {
            // a run on a shared interruptibility state, alone: the same set-up (a state of its own, reborrowed), and the
            // signal that was pending in the shared state when it began (see its `call` event) is sent before the call
            solo_cfg.tx_drop = false;
            solo_cfg.sync_sig.clear();
            solo_cfg.pre_signal = trace
                .iter()
                .find(|v| v["ev"] == "call" && v["run"] == r)
                .map(|v| v["pre_signal"] == true)
                .unwrap_or(false);
        }
        solo.phases = vec![Phase::Runs { runs: vec![solo_cfg], steps: mine }];
        let res = run_scenario(&solo, inside, &ExploreOpts::default());
        trace.push(serde_json::json!({"ev":"fresh_begin","of":r,"first":first,"mode":mode}));
        first = false;
        let from = res.trace.iter().position(|v| v["ev"] == "call").unwrap_or(res.trace.len());
        trace.extend(res.trace[from..].iter().cloned());
        trace.push(serde_json::json!({"ev":"fresh_end","of":r}));
    }
}

fn mix(a: u64, b: u64) -> u64 {
    let mut z = a ^ b.wrapping_mul(0x9E3779B97F4A7C15);
    z = (z ^ (z >> 30)).wrapping_mul(0xBF58476D1CE4E5B9);
    z = (z ^ (z >> 27)).wrapping_mul(0x94D049BB133111EB);
    z ^ (z >> 31)
}

struct Sel {
    idx: u64,
    shard: u64,
    shards: u64,
    sample: u64,
    seed: u64,
}

impl Sel {
    fn new(p: &GenParams) -> Self {
        Sel {
            idx: 0,
            shard: p.shard,
            shards: p.shards.max(1),
            sample: p.sample.max(1),
            seed: p.seed,
        }
    }
    /// The same without sampling (sharding only): the tiny inputs (no function, one function) are never sampled away --
    /// they are cheap, and the empty graph has its own exit path in every body.
    fn take_all(&mut self) -> bool {
        let i = self.idx;
        self.idx += 1;
        mix(i, 0x5bd1e995) % self.shards == self.shard
    }

    /// Deterministic selection of the next combination: sampling first, then sharding.
    fn take(&mut self) -> bool {
        let i = self.idx;
        self.idx += 1;
        if self.sample > 1 && mix(i, self.seed) % self.sample != 0 {
            return false;
        }
        mix(i, 0x5bd1e995) % self.shards == self.shard
    }
}

// ---------------------------------------------------------------- graphs

/// All edge sets over pairs i<j (forward DAGs), as lists of (a,b).
pub fn fwd_dags(n: usize) -> Vec<Vec<(usize, usize)>> {
    let pairs: Vec<(usize, usize)> = (1..=n)
        .flat_map(|a| ((a + 1)..=n).map(move |b| (a, b)))
        .collect();
    (0..(1u64 << pairs.len()))
        .map(|m| {
            pairs
                .iter()
                .enumerate()
                .filter(|(i, _)| m >> i & 1 == 1)
                .map(|(_, p)| *p)
                .collect()
        })
        .collect()
}

fn acyclic(n: usize, edges: &[(usize, usize)]) -> bool {
    let mut indeg = vec![0; n + 1];
    for &(_, b) in edges {
        indeg[b] += 1;
    }
    let mut q: Vec<usize> = (1..=n).filter(|&i| indeg[i] == 0).collect();
    let mut seen = 0;
    while let Some(v) = q.pop() {
        seen += 1;
        for &(a, b) in edges {
            if a == v {
                indeg[b] -= 1;
                if indeg[b] == 0 {
                    q.push(b);
                }
            }
        }
    }
    seen == n
}

/// All labelled DAGs on n nodes (edges in either direction), as edge lists.
pub fn all_dags(n: usize) -> Vec<Vec<(usize, usize)>> {
    let pairs: Vec<(usize, usize)> = (1..=n)
        .flat_map(|a| (1..=n).filter(move |&b| b != a).map(move |b| (a, b)))
        .collect();
    let mut out = Vec::new();
    for m in 0..(1u64 << pairs.len()) {
        let e: Vec<(usize, usize)> = pairs
            .iter()
            .enumerate()
            .filter(|(i, _)| m >> i & 1 == 1)
            .map(|(_, p)| *p)
            .collect();
        // no 2-cycles, acyclic
        if e.iter().any(|&(a, b)| e.contains(&(b, a))) {
            continue;
        }
        if acyclic(n, &e) {
            out.push(e);
        }
    }
    out
}

fn calls_of(edges: &[(usize, usize)], kind_mask: u64) -> Vec<BCall> {
    edges
        .iter()
        .enumerate()
        .map(|(i, &(a, b))| BCall::Edge {
            kind: if kind_mask >> (i % 64) & 1 == 1 { "contains".into() } else { "logic".into() },
            a,
            b,
        })
        .collect()
}

/// Access declarations: per function and type one of none / read / write.
/// `code` is a base-3 number with n*types digits.
fn access_of(n: usize, types: usize, code: u64) -> (Vec<Vec<usize>>, Vec<Vec<usize>>) {
    access_of_rw(n, types, code, 0)
}

/// As `access_of`; additionally a writer whose bit is set in `rw_mask` also lists the type as read
/// (the same type in both `borrows()` and `borrow_muts()`).
fn access_of_rw(n: usize, types: usize, mut code: u64, rw_mask: u64) -> (Vec<Vec<usize>>, Vec<Vec<usize>>) {
    let mut reads = vec![vec![]; n];
    let mut writes = vec![vec![]; n];
    let mut bit = 0;
    for f in 0..n {
        for t in 1..=types {
            match code % 3 {
                1 => reads[f].push(t),
                2 => {
                    writes[f].push(t);
                    if rw_mask >> (bit % 64) & 1 == 1 {
                        reads[f].push(t);
                    }
                }
                _ => {}
            }
            code /= 3;
            bit += 1;
        }
    }
    (reads, writes)
}

/// Largest function id a call names (0 for `Fn`).
fn max_fn_of(c: &BCall) -> usize {
    match c {
        BCall::Edge { a, b, .. } => std::cmp::max(*a, *b),
        BCall::Edges { pairs, .. } => pairs.iter().map(|p| std::cmp::max(p[0], p[1])).max().unwrap_or(0),
        BCall::Fn => 0,
    }
}

/// Moves `add_fn` calls between the edge calls: the functions from `first_late` on are added as late as possible
/// (`lazy`: right before the first call that names a function with the same or a higher id) or at random earlier
/// points. Functions that no call names are added after the last call.
fn interleave_fns(n: usize, calls: &[BCall], first_late: usize, lazy: bool, rng: &mut Rng) -> Vec<BCall> {
    if n == 0 || first_late > n || calls.iter().any(|c| matches!(c, BCall::Fn)) {
        return calls.to_vec();
    }
    let first_late = std::cmp::max(first_late, 1);
    // need[i] = number of functions that must exist before call i
    let need: Vec<usize> = calls.iter().map(max_fn_of).collect();
    let mut out = Vec::new();
    let mut have = first_late - 1;
    for (i, c) in calls.iter().enumerate() {
        let must = std::cmp::min(need[i], n);
        let mut upto = must;
        if !lazy && have < n {
            // sometimes add more than needed already here
            upto = std::cmp::max(must, have + rng.below(n - have + 1) / 2);
        }
        while have < upto {
            out.push(BCall::Fn);
            have += 1;
        }
        out.push(c.clone());
    }
    while have < n {
        out.push(BCall::Fn);
        have += 1;
    }
    out
}

/// Lists some declared types twice (declarations are lists, not sets: `|a: &T, b: &T|`).
fn duplicate_some(rng: &mut Rng, reads: &mut [Vec<usize>], writes: &mut [Vec<usize>], pct: u64) {
    for v in reads.iter_mut().chain(writes.iter_mut()) {
        if !v.is_empty() && rng.next() % 100 < pct {
            let t = v[rng.below(v.len())];
            let pos = rng.below(v.len() + 1);
            v.insert(pos, t);
        }
    }
}

fn random_dag(rng: &mut Rng, n: usize, density_pct: u64, fwd_only: bool) -> Vec<(usize, usize)> {
    // random permutation as topological order, so edges can point from high ids to low ids
    let mut perm: Vec<usize> = (1..=n).collect();
    if !fwd_only {
        for i in (1..n).rev() {
            let j = rng.below(i + 1);
            perm.swap(i, j);
        }
    }
    let mut e = Vec::new();
    for i in 0..n {
        for j in (i + 1)..n {
            if rng.next() % 100 < density_pct {
                e.push((perm[i], perm[j]));
            }
        }
    }
    // random insertion order of the edges
    for i in (1..e.len()).rev() {
        let j = rng.below(i + 1);
        e.swap(i, j);
    }
    e
}

fn random_access(rng: &mut Rng, n: usize, types: usize, pct_none: u64) -> (Vec<Vec<usize>>, Vec<Vec<usize>>) {
    let mut reads = vec![vec![]; n];
    let mut writes = vec![vec![]; n];
    for f in 0..n {
        for t in 1..=types {
            let r = rng.next() % 100;
            if r < pct_none {
            } else if r < pct_none + (100 - pct_none) * 3 / 5 {
                reads[f].push(t);
            } else {
                writes[f].push(t);
                if rng.chance(1, 4) {
                    reads[f].push(t); // the same type as read and as write
                }
            }
        }
        // declaration order is the caller's business: shuffle it
        for v in [&mut reads[f], &mut writes[f]] {
            for a in (1..v.len()).rev() {
                let b = rng.below(a + 1);
                v.swap(a, b);
            }
        }
    }
    (reads, writes)
}

// ---------------------------------------------------------------- option sets

fn cfg(api: &str, mutv: bool, control: bool) -> RunCfg {
    RunCfg {
        api: api.into(),
        mutv,
        control,
        with: false,
        order: "fwd".into(),
        limit: -1,
        strategy: "none".into(),
        k: 0,
        include: true,
        pre_signal: false,
        tx_drop: false,
        sync_ok: vec![],
        sync_fail: vec![],
        sync_sig: vec![],
        share: false,
    }
}

pub fn bodies() -> Vec<RunCfg> {
    vec![
        cfg("fold", false, false),
        cfg("fold", true, false),
        cfg("try_fold", false, false),
        cfg("try_fold", true, false),
        cfg("for_each", false, false),
        cfg("for_each", true, false),
        cfg("try_for_each", false, false),
        cfg("try_for_each", true, false),
        cfg("try_for_each", false, true),
        cfg("try_for_each", true, true),
    ]
}

/// (with, order, strategy, k, include, pre_signal)
fn opt_sets(full: bool) -> Vec<(bool, &'static str, &'static str, u64, bool, bool)> {
    let mut v = vec![
        (false, "fwd", "none", 0, true, false),
        (true, "rev", "none", 0, true, false),
        (true, "fwd", "finish", 0, true, false),
        (true, "fwd", "finish", 0, false, false),
        (true, "rev", "finish", 0, true, false),
        (true, "fwd", "poll_n", 1, true, false),
        (true, "rev", "poll_n", 2, false, false),
        (true, "fwd", "poll_n", 0, true, false),
        (true, "fwd", "ignore", 0, true, false),
        (true, "fwd", "finish", 0, true, true),
        (true, "fwd", "poll_n", 1, true, true),
    ];
    if full {
        v.extend([
            (true, "fwd", "none", 0, true, false),
            (true, "fwd", "non", 0, true, false),
            (true, "rev", "finish", 0, false, false),
            (true, "fwd", "poll_n", 2, true, false),
            (true, "fwd", "poll_n", 1, false, false),
            (true, "rev", "poll_n", 0, false, false),
            (true, "rev", "ignore", 0, false, false),
            (true, "rev", "finish", 0, false, true),
            (true, "fwd", "poll_n", 2, false, true),
            (true, "rev", "poll_n", 0, true, true),
            (true, "fwd", "ignore", 0, true, true),
        ]);
    }
    v
}

pub fn call_cfgs(full: bool) -> Vec<RunCfg> {
    let mut out = Vec::new();
    for b in bodies() {
        for (with, order, strategy, k, include, pre) in opt_sets(full) {
            let limits: Vec<i64> = if b.api.ends_with("for_each") {
                if full { vec![-1, 0, 1, 2, 3] } else { vec![-1, 1, 2] }
            } else {
                vec![-1]
            };
            for limit in limits {
                // the plain entry points take a limit but no options
                let mut c = b.clone();
                c.with = with;
                c.order = order.into();
                c.strategy = strategy.into();
                c.k = k;
                c.include = include;
                c.pre_signal = pre;
                c.limit = limit;
                c.tx_drop = pre && (out.len() % 2 == 0);
                out.push(c);
            }
        }
    }
    out
}

pub fn stream_cfgs() -> Vec<RunCfg> {
    let mut out = Vec::new();
    let mut s = cfg("stream", false, false);
    out.push(s.clone());
    s.with = true;
    out.push(s.clone());
    s.order = "rev".into();
    out.push(s.clone());
    // stream_with ignores interruptibility: give it one to ignore
    s.strategy = "finish".into();
    out.push(s.clone());
    let mut i = cfg("stream_int", false, false);
    out.push(i.clone());
    i.with = true;
    for (order, strategy, k, include, pre) in [
        ("fwd", "finish", 0, true, false),
        ("rev", "finish", 0, false, false),
        ("fwd", "poll_n", 1, true, false),
        ("rev", "poll_n", 2, true, false),
        ("fwd", "poll_n", 0, false, false),
        ("fwd", "ignore", 0, true, false),
        ("fwd", "non", 0, true, false),
        ("fwd", "finish", 0, true, true),
        ("fwd", "poll_n", 1, true, true),
        ("rev", "poll_n", 2, false, true),
    ] {
        let mut c = i.clone();
        c.order = order.into();
        c.strategy = strategy.into();
        c.k = k;
        c.include = include;
        c.pre_signal = pre;
        out.push(c);
    }
    out
}

fn random_cfg(rng: &mut Rng, streams: bool) -> RunCfg {
    if streams {
        let v = stream_cfgs();
        let mut c = rng.pick(&v).clone();
        if c.with && rng.chance(1, 2) {
            c.order = if rng.chance(1, 2) { "fwd".into() } else { "rev".into() };
        }
        if c.strategy == "poll_n" {
            c.k = rng.below(4) as u64;
        }
        c.tx_drop = c.has_channel() && rng.chance(1, 3);
        return c;
    }
    let mut c = rng.pick(&bodies()).clone();
    c.with = rng.chance(4, 5);
    if c.with {
        c.order = if rng.chance(1, 2) { "fwd".into() } else { "rev".into() };
        c.strategy = (*rng.pick(&["none", "non", "ignore", "finish", "finish", "poll_n", "poll_n"])).into();
        c.k = rng.below(4) as u64;
        c.include = rng.chance(1, 2);
        c.pre_signal = c.has_channel() && rng.chance(1, 6);
        c.tx_drop = c.has_channel() && rng.chance(1, 3);
    }
    if c.api.ends_with("for_each") {
        c.limit = *rng.pick(&[-1, -1, 0, 1, 2, 3, 5]);
    }
    c
}

/// Makes some functions "synchronous": their user future is ready on its first poll.
fn random_sync(rng: &mut Rng, c: &mut RunCfg, n: usize, max_fail: usize) {
    if n == 0 || c.is_stream() || !rng.chance(1, 3) {
        return;
    }
    let pct = *rng.pick(&[100u64, 50, 25]);
    c.sync_ok = (1..=n).filter(|_| rng.next() % 100 < pct).collect();
    if c.is_try() && max_fail > 0 && rng.chance(1, 3) {
        let f = 1 + rng.below(n);
        c.sync_ok.retain(|&g| g != f);
        c.sync_fail = vec![f];
    }
    if c.has_channel() && !c.pre_signal && !c.sync_ok.is_empty() && rng.chance(1, 3) {
        c.sync_sig = vec![*rng.pick(&c.sync_ok)];
    }
}

/// The "synchronous function" variants of one option set on a graph of n functions, for the exhaustive families:
/// all functions synchronous; all synchronous with one of them failing (try APIs); one synchronous function.
fn sync_variants(c: &RunCfg, n: usize, h: u64) -> Vec<(String, RunCfg)> {
    let mut out = Vec::new();
    if n == 0 || c.is_stream() {
        return out;
    }
    let mut all = c.clone();
    all.sync_ok = (1..=n).collect();
    out.push(("sa".to_string(), all.clone()));
    if c.is_try() {
        for f in 1..=n {
            let mut v = all.clone();
            v.sync_ok.retain(|&g| g != f);
            v.sync_fail = vec![f];
            out.push((format!("sf{f}"), v));
        }
    }
    if c.has_channel() && !c.pre_signal {
        // a synchronous function interrupts the run in the poll in which it is started
        for f in 1..=n {
            let mut v = c.clone();
            v.sync_ok = vec![f];
            v.sync_sig = vec![f];
            out.push((format!("sg{f}"), v));
        }
        let mut v = all.clone();
        v.sync_sig = vec![1 + (h % n as u64) as usize];
        out.push(("sag".to_string(), v));
    }
    if n >= 2 {
        let f = 1 + (h % n as u64) as usize;
        let mut one = c.clone();
        one.sync_ok = vec![f];
        out.push((format!("s{f}"), one));
        if c.is_try() && h % 2 == 0 {
            let mut one = c.clone();
            one.sync_fail = vec![f];
            out.push((format!("f{f}"), one));
        }
    }
    out
}

fn base_scn(id: String, n: usize, calls: Vec<BCall>, reads: Vec<Vec<usize>>, writes: Vec<Vec<usize>>) -> Scenario {
    let id_hash = id.len() as u64 ^ id.bytes().map(|b| b as u64).sum::<u64>();
    Scenario {
        id,
        n,
        reads,
        writes,
        tags: vec![],
        calls,
        phases: vec![],
        tokio: false,
        burn: vec![],
        threads: false,
        xdrop: false,
        watchdog: false,
        // a third of all inputs add their up-front functions through `add_fns`
        add_fns: n >= 1 && mix(n as u64, id_hash) % 3 == 0,
    }
}

fn runs_phase(runs: Vec<RunCfg>) -> Phase {
    Phase::Runs { runs, steps: vec![] }
}

fn xopts_for(c: &RunCfg, max_fail: usize) -> ExploreOpts {
    ExploreOpts {
        max_fail: if c.is_try() { max_fail } else { 0 },
        signals: true,
        ..Default::default()
    }
}

// ---------------------------------------------------------------- families

pub fn generate(p: &GenParams, out: &mut Out) {
    let thorough = p.tier == "thorough";
    let mut sel = Sel::new(p);
    let mut emit = |s: &Scenario, t: &[Value]| out.emit(s, t);
    match p.family.as_str() {
        // Builder inputs: every labelled DAG x every kind assignment x every access declaration.
        // Post-build phases: sequential APIs, GraphInfo, and `==` variants on a sample.
        "builder_exh" => {
            let max_n = if p.max_n > 0 { p.max_n } else if thorough { 4 } else { 3 };
            for n in 0..=max_n {
                let types = if n <= 3 { 2 } else { 1 };
                let acc_count = 3u64.pow((n * types) as u32);
                for (gi, e) in all_dags(n).iter().enumerate() {
                    let kinds: Vec<u64> = if e.is_empty() { vec![0] } else { vec![0, (1 << e.len()) - 1, 0b0101 & ((1 << e.len()) - 1)] };
                    for (ki, &km) in kinds.iter().enumerate() {
                        if ki == 2 && (km == 0 || e.len() < 2) {
                            continue;
                        }
                        for code in 0..acc_count {
                            if !(if n <= 1 { sel.take_all() } else { sel.take() }) {
                                continue;
                            }
                            let h = mix(code, gi as u64 * 31 + ki as u64);
                            // a third of the inputs: some writers also list the type as read
                            let rw_mask = if h % 3 == 0 { mix(h, 0xAB) } else { 0 };
                            let (mut reads, mut writes) = access_of_rw(n, types, code, rw_mask);
                            // declaration order within a function: ascending or descending type index
                            if h % 2 == 1 {
                                for v in reads.iter_mut().chain(writes.iter_mut()) {
                                    v.reverse();
                                }
                            }
                            // a fifth of the inputs: a declared type listed twice; a quarter: add_fn between the edge calls
                            let mut hr = Rng::new(h);
                            if h % 5 == 2 {
                                duplicate_some(&mut hr, &mut reads, &mut writes, 60);
                            }
                            let mut calls = calls_of(e, km);
                            if h % 4 == 1 && n >= 2 {
                                calls = interleave_fns(n, &calls, 1 + hr.below(n), h % 8 == 1, &mut hr);
                            }
                            let mut s = base_scn(format!("b{n}-{gi}-{ki}-{code}"), n, calls, reads, writes);
                            s.phases.push(Phase::Seq { fail_at: (h % (n as u64 + 2)) as usize });
                            s.phases.push(Phase::GraphInfo);
                            if h % 7 == 0 || n <= 1 {
                                s.phases.push(Phase::Eq);
                            }
                            let r = run_scenario(&s, p.hooks, &ExploreOpts::default());
                            emit(&s, &r.trace);
                        }
                    }
                }
            }
        }
        // Builder call sequences incl. repeats, reversed pairs, self edges, kind changes, batches.
        "builder_calls" => {
            let max_n = if p.max_n > 0 { p.max_n } else { 3 };
            let max_len = if thorough { 5 } else { 4 };
            for n in 1..=max_n {
                let mut alphabet: Vec<BCall> = Vec::new();
                for a in 1..=n {
                    for b in 1..=n {
                        for kind in ["logic", "contains"] {
                            alphabet.push(BCall::Edge { kind: kind.into(), a, b });
                        }
                    }
                }
                // all sequences up to max_len over the alphabet is too large for n=3 (18^5); enumerate
                // by length with sampling at the longer lengths
                let mut seqs: Vec<Vec<usize>> = vec![vec![]];
                for _len in 1..=max_len {
                    let mut next = Vec::new();
                    for s in &seqs {
                        for a in 0..alphabet.len() {
                            let mut t = s.clone();
                            t.push(a);
                            next.push(t);
                        }
                    }
                    // keep the frontier bounded
                    if next.len() > 40_000 {
                        let m = next.len() as u64 / 40_000 + 1;
                        let seed = p.seed;
                        let mut k = 0u64;
                        next.retain(|_| {
                            k += 1;
                            mix(k, seed) % m == 0
                        });
                    }
                    for (si, sq) in next.iter().enumerate() {
                        if !sel.take() {
                            continue;
                        }
                        let mut calls: Vec<BCall> = sq.iter().map(|&i| alphabet[i].clone()).collect();
                        // a third of the sequences: functions are added between the edge calls
                        if si % 3 == 1 && n >= 2 {
                            let mut hr = Rng::new(mix(si as u64, n as u64));
                            calls = interleave_fns(n, &calls, 1 + hr.below(n), si % 2 == 1, &mut hr);
                        }
                        let mut s = base_scn(format!("c{n}-{}-{si}", sq.len()), n, calls, vec![], vec![]);
                        if mix(si as u64, 77) % 5 == 0 {
                            s.phases.push(Phase::Eq);
                        }
                        let r = run_scenario(&s, p.hooks, &ExploreOpts::default());
                        emit(&s, &r.trace);
                    }
                    seqs = next;
                }
            }
            // batch forms
            let mut rng = Rng::new(p.seed ^ 0xBA7C4);
            let cnt = if p.count > 0 { p.count } else if thorough { 6000 } else { 1500 };
            for i in 0..cnt {
                if !sel.take() {
                    continue;
                }
                let n = if rng.chance(1, 3) { 5 + rng.below(6) } else { 2 + rng.below(3) };
                let mut calls = Vec::new();
                for _ in 0..(1 + rng.below(4)) {
                    let kind: String = (*rng.pick(&["logic", "contains"])).into();
                    if rng.chance(1, 2) {
                        let len = if rng.chance(1, 3) { 7 + rng.below(6) } else { rng.below(5) };
                        let mut pairs: Vec<[usize; 2]> = (0..len).map(|_| [1 + rng.below(n), 1 + rng.below(n)]).collect();
                        // long batches: mostly forward pairs (so that they are often accepted), with repeats
                        if len >= 7 {
                            for p in pairs.iter_mut() {
                                if rng.chance(4, 5) && p[0] > p[1] {
                                    p.swap(0, 1);
                                }
                            }
                            if rng.chance(1, 2) {
                                let a = rng.below(len);
                                let b = rng.below(len);
                                pairs[a] = pairs[b];
                            }
                        }
                        calls.push(BCall::Edges { kind, pairs });
                    } else {
                        calls.push(BCall::Edge { kind, a: 1 + rng.below(n), b: 1 + rng.below(n) });
                    }
                }
                let calls = if rng.chance(1, 3) {
                    let fl = 1 + rng.below(n);
                    let lazy = rng.chance(1, 2);
                    interleave_fns(n, &calls, fl, lazy, &mut rng)
                } else {
                    calls
                };
                let s = base_scn(format!("cb-{i}"), n, calls, vec![], vec![]);
                let r = run_scenario(&s, p.hooks, &ExploreOpts::default());
                emit(&s, &r.trace);
            }
        }
        // Random larger builder inputs with all post-build phases.
        "builder_rand" => {
            let mut rng = Rng::new(p.seed ^ 0xB11D);
            let cnt = if p.count > 0 { p.count } else if thorough { 4000 } else { 600 };
            let max_n = if p.max_n > 0 { p.max_n } else { 12 };
            for i in 0..cnt {
                let n = 2 + rng.below(max_n - 1);
                let dens = *rng.pick(&[5u64, 15, 30, 50]);
                let e = random_dag(&mut rng, n, dens, false);
                let km = rng.next();
                let types = 1 + rng.below(3);
                let none = *rng.pick(&[20u64, 50, 70]);
                let (reads, writes) = random_access(&mut rng, n, types, none);
                let mut calls = calls_of(&e, km);
                // sprinkle repeats / reversed pairs / self edges
                for _ in 0..rng.below(3) {
                    let kind: String = (*rng.pick(&["logic", "contains"])).into();
                    let (a, b) = (1 + rng.below(n), 1 + rng.below(n));
                    let pos = rng.below(calls.len() + 1);
                    calls.insert(pos, BCall::Edge { kind, a, b });
                }
                let (mut reads, mut writes) = (reads, writes);
                if rng.chance(1, 4) {
                    duplicate_some(&mut rng, &mut reads, &mut writes, 40);
                }
                let calls = if rng.chance(1, 3) {
                    let fl = 1 + rng.below(n);
                    let lazy = rng.chance(1, 2);
                    interleave_fns(n, &calls, fl, lazy, &mut rng)
                } else {
                    calls
                };
                if !sel.take() {
                    continue;
                }
                let mut s = base_scn(format!("br-{i}"), n, calls, reads, writes);
                s.tags = (0..n).map(|_| rng.below(4) as u32).collect();
                s.phases.push(Phase::Seq { fail_at: rng.below(n + 2) });
                s.phases.push(Phase::GraphInfo);
                if n <= 7 {
                    s.phases.push(Phase::Eq);
                }
                let r = run_scenario(&s, p.hooks, &ExploreOpts::default());
                emit(&s, &r.trace);
            }
        }
        // Larger builder inputs around the usual size thresholds (20/21, 32, 64, 65, 128), with declarations over
        // up to 12 data types, functions inserted in any order, and all post-build phases.
        "builder_big" => {
            let mut rng = Rng::new(p.seed ^ 0xB16);
            let cnt = if p.count > 0 { p.count } else if thorough { 400 } else { 90 };
            for i in 0..cnt {
                let n = match rng.below(10) {
                    0 | 1 => 64,
                    2 => 63 + rng.below(4),
                    3 => 128 + rng.below(2) * rng.below(3),
                    4 => 30 + rng.below(6),
                    5 | 6 => 18 + rng.below(8),
                    _ => 13 + rng.below(60),
                };
                let shape = rng.below(6);
                let mut e: Vec<(usize, usize)> = match shape {
                    0 => random_dag(&mut rng, n, 3, false),
                    1 => random_dag(&mut rng, n, 8, false),
                    // one late function that everything else follows, or precedes
                    2 => (1..n).map(|a| (n, a)).collect(),
                    3 => vec![(n, 1)],
                    // setup + pipeline: setup -> s_i for all i, chain s_1 -> s_2 -> ...
                    4 => {
                        let k = std::cmp::min(n - 1, 12 + rng.below(12));
                        let mut v: Vec<(usize, usize)> = (2..=k + 1).map(|b| (1, b)).collect();
                        v.extend((2..=k).map(|a| (a, a + 1)));
                        v
                    }
                    _ => {
                        // a few independent chains
                        let chains = 2 + rng.below(4);
                        (1..n).filter(|a| a % chains != 0 || true).filter_map(|a| if a + chains <= n { Some((a, a + chains)) } else { None }).collect()
                    }
                };
                if rng.chance(1, 3) {
                    for a in (1..e.len()).rev() {
                        let b = rng.below(a + 1);
                        e.swap(a, b);
                    }
                }
                let types = *rng.pick(&[1usize, 1, 2, 3, 9, 12]);
                let none = *rng.pick(&[0u64, 40, 80, 95]);
                let (reads, writes) = random_access(&mut rng, n, types, none);
                let km = rng.next();
                let (mut reads, mut writes) = (reads, writes);
                if rng.chance(1, 4) {
                    duplicate_some(&mut rng, &mut reads, &mut writes, 20);
                }
                let mut calls = calls_of(&e, km);
                if rng.chance(1, 4) {
                    let fl = 1 + rng.below(n);
                    let lazy = rng.chance(1, 2);
                    calls = interleave_fns(n, &calls, fl, lazy, &mut rng);
                }
                if !sel.take() {
                    continue;
                }
                let mut s = base_scn(format!("bb-{i}"), n, calls, reads, writes);
                s.phases.push(Phase::Seq { fail_at: rng.below(n + 2) });
                s.phases.push(Phase::GraphInfo);
                let r = run_scenario(&s, p.hooks, &ExploreOpts::default());
                emit(&s, &r.trace);
            }
        }
        // Dense / layered graphs for the cost of build().
        "dense" => {
            let cap = if p.max_n > 0 { p.max_n } else { usize::MAX };
            let max_k = std::cmp::min(cap, if thorough { 18 } else { 14 });
            let mut idx = 0;
            let mut over = false;
            for n in 2..=max_k {
                if over {
                    break;
                }
                // complete DAG, three insertion orders of the edges
                for variant in 0..3 {
                    let mut e: Vec<(usize, usize)> = (1..=n).flat_map(|a| ((a + 1)..=n).map(move |b| (a, b))).collect();
                    match variant {
                        1 => e.reverse(),
                        2 => e.sort_by_key(|&(a, b)| (b, std::cmp::Reverse(a))),
                        _ => {}
                    }
                    idx += 1;
                    if !sel.take() {
                        continue;
                    }
                    let s = base_scn(format!("k{n}-{variant}-{idx}"), n, calls_of(&e, 0), vec![], vec![]);
                    let r = run_scenario(&s, p.hooks, &ExploreOpts::default());
                    // stop growing once the bound is exceeded: the next size would take twice as long
                    if let Some(b) = r.trace.iter().find(|v| v["ev"] == "build") {
                        if b["rank_pops"].as_i64().unwrap_or(0) > (n * n + n) as i64 {
                            over = true;
                        }
                    }
                    emit(&s, &r.trace);
                }
            }
            // layered: w nodes per layer, d layers, complete bipartite between consecutive layers;
            // deep and narrow ones have exponentially many equal-length paths
            let mut layered: Vec<(usize, usize)> = Vec::new();
            for d in 2..=(if thorough { 16 } else { 12 }) {
                for wd in 2..=4usize {
                    if wd * d <= (if thorough { 48 } else { 36 }) {
                        layered.push((wd, d));
                    }
                }
            }
            layered.sort_by_key(|&(wd, d)| wd * d);
            for (wd, d) in layered {
                if over {
                    break;
                }
                let n = wd * d;
                if n > cap {
                    continue;
                }
                for variant in 0..2 {
                    let mut e = Vec::new();
                    for l in 0..(d - 1) {
                        for a in 0..wd {
                            for b in 0..wd {
                                e.push((l * wd + a + 1, (l + 1) * wd + b + 1));
                            }
                        }
                    }
                    if variant == 1 {
                        e.reverse();
                    }
                    idx += 1;
                    if !sel.take() {
                        continue;
                    }
                    let s = base_scn(format!("lay{wd}x{d}-{variant}-{idx}"), n, calls_of(&e, if variant == 1 { u64::MAX } else { 0 }), vec![], vec![]);
                    let r = run_scenario(&s, p.hooks, &ExploreOpts::default());
                    if let Some(b) = r.trace.iter().find(|v| v["ev"] == "build") {
                        if b["rank_pops"].as_i64().unwrap_or(0) > (n * n + n) as i64 {
                            over = true;
                        }
                    }
                    emit(&s, &r.trace);
                }
            }
            // chains of diamonds: a -> {b, c} -> d -> {e, f} -> g ...
            for k in 1..=(if thorough { 14 } else { 10 }) {
                if over {
                    break;
                }
                let n = 3 * k + 1;
                if n > cap {
                    continue;
                }
                let mut e = Vec::new();
                for q in 0..k {
                    let a = 3 * q + 1;
                    e.push((a, a + 1));
                    e.push((a, a + 2));
                    e.push((a + 1, a + 3));
                    e.push((a + 2, a + 3));
                }
                idx += 1;
                if !sel.take() {
                    continue;
                }
                let s = base_scn(format!("dia{k}-{idx}"), n, calls_of(&e, 0), vec![], vec![]);
                let r = run_scenario(&s, p.hooks, &ExploreOpts::default());
                if let Some(b) = r.trace.iter().find(|v| v["ev"] == "build") {
                    if b["rank_pops"].as_i64().unwrap_or(0) > (n * n + n) as i64 {
                        over = true;
                    }
                }
                emit(&s, &r.trace);
            }
            // random layered graphs (each node wired to a random subset of the next layer), shuffled ids
            {
                let mut rng = Rng::new(p.seed ^ 0x1A7E4);
                for i in 0..(if thorough { 60 } else { 20 }) {
                    if over {
                        break;
                    }
                    let wd = 2 + rng.below(3);
                    let d = 4 + rng.below(if thorough { 10 } else { 7 });
                    let n = wd * d;
                    if n > cap {
                        continue;
                    }
                    let mut perm: Vec<usize> = (1..=n).collect();
                    for a in (1..n).rev() {
                        let b = rng.below(a + 1);
                        perm.swap(a, b);
                    }
                    let mut e = Vec::new();
                    for l in 0..(d - 1) {
                        for a in 0..wd {
                            for b in 0..wd {
                                if rng.chance(3, 4) {
                                    e.push((perm[l * wd + a], perm[(l + 1) * wd + b]));
                                }
                            }
                        }
                    }
                    for a in (1..e.len()).rev() {
                        let b = rng.below(a + 1);
                        e.swap(a, b);
                    }
                    idx += 1;
                    if !sel.take() {
                        continue;
                    }
                    let s = base_scn(format!("rlay-{i}-{idx}"), n, calls_of(&e, rng.next()), vec![], vec![]);
                    let r = run_scenario(&s, p.hooks, &ExploreOpts::default());
                    if let Some(b) = r.trace.iter().find(|v| v["ev"] == "build") {
                        if b["rank_pops"].as_i64().unwrap_or(0) > (n * n + n) as i64 {
                            over = true;
                        }
                    }
                    emit(&s, &r.trace);
                }
            }
            // the same dense shapes placed AFTER a block of other functions (index-dependent work)
            for (off, k) in [(64usize, 10usize), (64, 14), (70, 12), (130, 10)] {
                if over || off + k > cap {
                    continue;
                }
                let n = off + k;
                let e: Vec<(usize, usize)> = (1..=k).flat_map(|a| ((a + 1)..=k).map(move |b| (off + a, off + b))).collect();
                idx += 1;
                if !sel.take() {
                    continue;
                }
                let s = base_scn(format!("off{off}k{k}-{idx}"), n, calls_of(&e, 0), vec![], vec![]);
                let r = run_scenario(&s, p.hooks, &ExploreOpts::default());
                if let Some(b) = r.trace.iter().find(|v| v["ev"] == "build") {
                    if b["rank_pops"].as_i64().unwrap_or(0) > (n * n + n) as i64 {
                        over = true;
                    }
                }
                emit(&s, &r.trace);
            }
            for (off, wd, d) in [(64usize, 2usize, 10usize), (66, 2, 13), (64, 3, 7)] {
                if over || off + wd * d > cap {
                    continue;
                }
                let n = off + wd * d;
                let mut e: Vec<(usize, usize)> = (1..off).map(|a| (a, a + 1)).collect();
                for l in 0..(d - 1) {
                    for a in 0..wd {
                        for b in 0..wd {
                            e.push((off + l * wd + a + 1, off + (l + 1) * wd + b + 1));
                        }
                    }
                }
                idx += 1;
                if !sel.take() {
                    continue;
                }
                let s = base_scn(format!("offlay{off}-{wd}x{d}-{idx}"), n, calls_of(&e, 0), vec![], vec![]);
                let r = run_scenario(&s, p.hooks, &ExploreOpts::default());
                if let Some(b) = r.trace.iter().find(|v| v["ev"] == "build") {
                    if b["rank_pops"].as_i64().unwrap_or(0) > (n * n + n) as i64 {
                        over = true;
                    }
                }
                emit(&s, &r.trace);
            }
            // a conflicting pair (s, t) with a sub-DAG of exponentially many paths between them in (rank, insertion)
            // order that does not reach t: whatever decides "is there a path s ~> t" must not walk every path.
            // build() runs under the watchdog (normally milliseconds; given up after 30 s).
            for (li, &layers) in [20usize, 28, 34].iter().enumerate() {
                for variant in 0..2usize {
                    if over {
                        break;
                    }
                    let lat0 = 2;
                    let chain0 = lat0 + 2 * layers;
                    let chain_len = layers + 1;
                    let t = chain0 + chain_len;
                    let n = t;
                    if n > cap {
                        continue;
                    }
                    let mut e: Vec<(usize, usize)> = vec![(1, lat0), (1, lat0 + 1)];
                    for l in 0..(layers - 1) {
                        for a in 0..2 {
                            for b in 0..2 {
                                e.push((lat0 + 2 * l + a, lat0 + 2 * (l + 1) + b));
                            }
                        }
                    }
                    for c in 0..chain_len {
                        e.push((chain0 + c, chain0 + c + 1));
                    }
                    if variant == 1 {
                        e.reverse();
                    }
                    let mut reads = vec![vec![]; n];
                    let mut writes = vec![vec![]; n];
                    writes[0].push(1);
                    if variant == 0 {
                        writes[t - 1].push(1);
                    } else {
                        reads[t - 1].push(1);
                    }
                    idx += 1;
                    if !sel.take() {
                        continue;
                    }
                    let mut s = base_scn(format!("lat{layers}-{variant}-{li}-{idx}"), n, calls_of(&e, if variant == 1 { u64::MAX } else { 0 }), reads, writes);
                    s.watchdog = true;
                    let r = run_scenario(&s, false, &ExploreOpts::default());
                    emit(&s, &r.trace);
                }
            }
            // random dense
            let mut rng = Rng::new(p.seed ^ 0xDE75E);
            let cnt = if p.count > 0 { p.count } else if thorough { 300 } else { 60 };
            for i in 0..cnt {
                if over {
                    break;
                }
                let n = std::cmp::min(cap, 6 + rng.below(if thorough { 11 } else { 8 }));
                let dens = *rng.pick(&[50u64, 70, 90]);
                let e = random_dag(&mut rng, n, dens, false);
                if !sel.take() {
                    continue;
                }
                let s = base_scn(format!("dr-{i}"), n, calls_of(&e, rng.next()), vec![], vec![]);
                let r = run_scenario(&s, p.hooks, &ExploreOpts::default());
                emit(&s, &r.trace);
            }
        }
        // Every schedule of every call option set on every small graph.
        "runs_exh" => {
            let max_n = if p.max_n > 0 { p.max_n } else if thorough { 4 } else { 3 };
            let cfgs = call_cfgs(thorough);
            for n in 0..=max_n {
                let graphs = fwd_dags(n);
                // declarations that add data edges: over one type
                let acc_codes: Vec<u64> = if n == 0 { vec![0] } else if n <= 3 { (0..3u64.pow(n as u32)).collect() } else { vec![0, 80, 53, 26, 8, 62, 74] };
                for (gi, e) in graphs.iter().enumerate() {
                    for &code in &acc_codes {
                        // with user edges everywhere declarations add nothing new: thin them out
                        if code != 0 && e.len() * 2 > n * (n - 1) / 2 + 1 {
                            continue;
                        }
                        let (reads, writes) = access_of_rw(n, 1, code, if gi % 2 == 1 { mix(code, gi as u64) } else { 0 });
                        for (ci, c) in cfgs.iter().enumerate() {
                            if !focus_ok(c, &p.focus) || (p.focus == "conflict" && code == 0 && n > 1) {
                                continue;
                            }
                            if !(if n <= 1 { sel.take_all() } else { sel.take() }) {
                                continue;
                            }
                            let mut s = base_scn(format!("r{n}-{gi}-{code}-{ci}"), n, calls_of(e, (gi as u64) * 5), reads.clone(), writes.clone());
                            s.phases.push(runs_phase(vec![c.clone()]));
                            let mut x = xopts_for(c, if n <= 3 { 3 } else { 2 });
                            // mid-poll signals: a completing function interrupts the run itself
                            x.signal_inside = c.has_channel() && !c.pre_signal && (p.focus == "int" || (gi + ci) % 3 == 0);
                            exhaustive(&s, &x, p.hooks || x.signal_inside, 64, 20_000, &mut emit);
                            // functions without an await point: the user future is ready on its first poll
                            if (gi + ci) % 2 == 0 || thorough {
                                for (tag, c2) in sync_variants(c, n, mix(gi as u64, ci as u64 + code)) {
                                    let mut s2 = s.clone();
                                    s2.id = format!("{}{}", s.id, tag);
                                    s2.phases = vec![runs_phase(vec![c2])];
                                    exhaustive(&s2, &x, p.hooks || x.signal_inside, 64, 5_000, &mut emit);
                                }
                            }
                        }
                    }
                }
            }
        }
        // Random graphs / declarations / option sets / schedules, incl. deferred completions.
        "runs_rand" => {
            let mut rng = Rng::new(p.seed ^ 0x52A4D);
            let cnt = if p.count > 0 { p.count } else if thorough { 30_000 } else { 3000 };
            let max_n = if p.max_n > 0 { p.max_n } else { 10 };
            for i in 0..cnt {
                let n = rng.below(max_n + 1);
                let dens = *rng.pick(&[0u64, 10, 25, 40, 60]);
                let e = random_dag(&mut rng, n, dens, false);
                let types = 1 + rng.below(3);
                let none = *rng.pick(&[30u64, 60, 90, 100]);
                let (reads, writes) = random_access(&mut rng, n, types, none);
                let mut c = random_cfg(&mut rng, false);
                for _ in 0..64 {
                    if focus_ok(&c, &p.focus) {
                        break;
                    }
                    c = random_cfg(&mut rng, false);
                }
                let (reads, writes) = if p.focus == "conflict" { random_access(&mut rng, n, types, 30) } else { (reads, writes) };
                let mut x = xopts_for(&c, rng.below(4));
                x.defer = rng.chance(1, 2);
                x.signal_inside = rng.chance(1, 2);
                let mut c = c;
                random_sync(&mut rng, &mut c, n, x.max_fail);
                x.max_signals = 1 + rng.below(4) / 3;
                x.spurious_polls = !p.hooks && rng.chance(1, 4);
                let sub = rng.next();
                if !sel.take() {
                    continue;
                }
                let tk = rng.chance(1, 4);
                let mut s = base_scn(format!("rr-{i}"), n, calls_of(&e, rng.next()), reads, writes);
                s.tokio = tk;
                s.phases.push(runs_phase(vec![c]));
                let mut r2 = Rng::new(sub);
                let (mut scn, mut trace) = random_walk(&s, &x, p.hooks || x.signal_inside, 6 * n + 12, &mut r2);
                scn.id = s.id.clone();
                if let Some(f) = trace.first_mut() {
                    f["scn"] = Value::String(scn.id.clone());
                }
                emit(&scn, &trace);
            }
        }
        // Wide graphs: more roots / fan-out than any fixed channel size.
        "wide" => {
            let mut rng = Rng::new(p.seed ^ 0x71DE);
            let cnt = if p.count > 0 { p.count } else if thorough { 400 } else { 60 };
            for i in 0..cnt {
                // sizes around the usual fixed-size thresholds (32, 64, 128)
                let n = match rng.below(8) {
                    0 => 120 + rng.below(20),
                    1 | 2 => 62 + rng.below(10),
                    3 | 4 => 30 + rng.below(10),
                    _ => 20 + rng.below(if thorough { 70 } else { 60 }),
                };
                let shape = rng.below(6);
                // shape 5: several roots, and the root that is handed out first (highest id forward, the mirrored sink in
                // reverse) fans out -- under a small limit its successors are released while the other roots are still
                // queued: pressure on the ready channel
                let (n, pressure) = if shape == 5 {
                    let roots = 3 + rng.below(8);
                    let kids = 2 + rng.below(8);
                    (roots + kids, Some((roots, kids)))
                } else {
                    (n, None)
                };
                let mut e: Vec<(usize, usize)> = Vec::new();
                match shape {
                    5 => {
                        let (roots, kids) = pressure.unwrap();
                        for k in 1..=kids {
                            e.push((roots, roots + k));
                        }
                    }
                    0 => {}
                    1 => {
                        for b in 2..=n {
                            e.push((1, b));
                        }
                    }
                    2 => {
                        for a in 1..n {
                            e.push((a, n));
                        }
                    }
                    3 => {
                        // a chain through all functions: long dependency path, early stops leave many unprocessed
                        for a in 1..n {
                            e.push((a, a + 1));
                        }
                    }
                    _ => {
                        let h = n / 2;
                        for a in 1..=h {
                            e.push((a, h + 1 + rng.below(n - h)));
                        }
                    }
                }
                let streams = p.focus == "stream" || (p.focus.is_empty() && rng.chance(1, 4));
                let mut c = random_cfg(&mut rng, streams);
                if !streams {
                    for _ in 0..64 {
                        if focus_ok(&c, &p.focus) {
                            break;
                        }
                        c = random_cfg(&mut rng, false);
                    }
                }
                if !streams && p.focus.is_empty() && rng.chance(1, 2) {
                    c.strategy = "none".into();
                    c.pre_signal = false;
                }
                if let Some((roots, _)) = pressure {
                    if !streams {
                        if !c.api.ends_with("for_each") {
                            c.api = (*rng.pick(&["for_each", "try_for_each"])).into();
                            c.control = false;
                        }
                        c.limit = *rng.pick(&[1i64, 1, 2, (roots - 2) as i64]);
                        if c.order == "rev" {
                            // mirror: the fan-out must be in the streamed direction
                            for p in e.iter_mut() {
                                *p = (p.1, p.0);
                            }
                        }
                    }
                }
                let mut x = xopts_for(&c, *rng.pick(&[0usize, 2, 1000]));
                x.fail_bias = x.max_fail > 2;
                x.stream_style = *rng.pick(&[0u8, 1, 2, 2]);
                x.defer = rng.chance(1, 2);
                x.multi_waker = rng.chance(1, 4);
                random_sync(&mut rng, &mut c, n, x.max_fail);
                let sub = rng.next();
                if !sel.take() {
                    continue;
                }
                let mut s = base_scn(format!("w-{i}"), n, calls_of(&e, 0), vec![], vec![]);
                s.tokio = sub % 2 == 0;
                s.xdrop = streams && sub % 3 == 0;
                s.phases.push(runs_phase(vec![c]));
                let mut r2 = Rng::new(sub);
                let (mut scn, mut trace) = random_walk(&s, &x, false, 8 * n + 12, &mut r2);
                scn.id = s.id.clone();
                if let Some(f) = trace.first_mut() {
                    f["scn"] = Value::String(scn.id.clone());
                }
                emit(&scn, &trace);
            }
        }
        // stream(): every interleaving of polls and FnRef drops (and early drop of the stream).
        "stream_exh" => {
            let max_n = if p.max_n > 0 { p.max_n } else if thorough { 4 } else { 3 };
            let cfgs = stream_cfgs();
            for n in 0..=max_n {
                let acc_codes: Vec<u64> = if n == 0 { vec![0] } else if n <= 3 { vec![0, 2, 8, 5, 26, 17] } else { vec![0, 80] };
                for (gi, e) in fwd_dags(n).iter().enumerate() {
                    for &code in &acc_codes {
                        if code >= 3u64.pow(n as u32) {
                            continue;
                        }
                        let (reads, writes) = access_of_rw(n, 1, code, if gi % 2 == 0 { mix(code, 7 + gi as u64) } else { 0 });
                        for (ci, c) in cfgs.iter().enumerate() {
                            if !focus_ok(c, &p.focus) {
                                continue;
                            }
                            for variant in 0..4u8 {
                                let ds = variant == 1;
                                // variant 3: FnRefs are dropped on another thread
                                let xd = variant == 3;
                                if xd && (p.hooks || !(thorough || n <= 2)) {
                                    continue;
                                }
                                // variant 2: a second consumer task (own waker) may take over polling
                                let mw = variant == 2;
                                if (ds || mw) && !(thorough || n <= 2) {
                                    continue;
                                }
                                if mw && n > 3 {
                                    continue;
                                }
                                if !(if n <= 1 { sel.take_all() } else { sel.take() }) {
                                    continue;
                                }
                                let mut s = base_scn(format!("s{n}-{gi}-{code}-{ci}-{variant}"), n, calls_of(e, gi as u64), reads.clone(), writes.clone());
                                s.phases.push(runs_phase(vec![c.clone()]));
                                s.xdrop = xd;
                                let x = ExploreOpts { drop_stream: ds, multi_waker: mw, ..Default::default() };
                                exhaustive(&s, &x, p.hooks, 64, if mw { 6_000 } else { 30_000 }, &mut emit);
                            }
                        }
                    }
                }
            }
        }
        "stream_rand" => {
            let mut rng = Rng::new(p.seed ^ 0x57E4);
            let cnt = if p.count > 0 { p.count } else if thorough { 20_000 } else { 2500 };
            let max_n = if p.max_n > 0 { p.max_n } else { 10 };
            for i in 0..cnt {
                let n = rng.below(max_n + 1);
                let dens = *rng.pick(&[0u64, 10, 25, 40, 60]);
                let e = random_dag(&mut rng, n, dens, false);
                let none = *rng.pick(&[50u64, 80, 100]);
                let (reads, writes) = random_access(&mut rng, n, 2, none);
                let mut c = random_cfg(&mut rng, true);
                for _ in 0..64 {
                    if focus_ok(&c, &p.focus) {
                        break;
                    }
                    c = random_cfg(&mut rng, true);
                }
                let x = ExploreOpts {
                    drop_stream: rng.chance(1, 3),
                    stream_style: *rng.pick(&[0u8, 0, 1, 2]),
                    multi_waker: rng.chance(1, 3),
                    ..Default::default()
                };
                let sub = rng.next();
                if !sel.take() {
                    continue;
                }
                let mut s = base_scn(format!("sr-{i}"), n, calls_of(&e, rng.next()), reads, writes);
                s.tokio = sub % 4 == 0;
                s.xdrop = !p.hooks && sub % 3 == 0;
                s.phases.push(runs_phase(vec![c]));
                let mut r2 = Rng::new(sub);
                let (mut scn, mut trace) = random_walk(&s, &x, p.hooks, 8 * n + 12, &mut r2);
                scn.id = s.id.clone();
                if let Some(f) = trace.first_mut() {
                    f["scn"] = Value::String(scn.id.clone());
                }
                emit(&scn, &trace);
            }
        }
        // Hook-level conformance: every schedule of ONE option set on every small graph (hooks on).
        "impl_runs" | "impl_streams" => {
            let streams = p.family == "impl_streams";
            let cfgs = if streams { stream_cfgs() } else { call_cfgs(true) };
            let c = cfgs.get(p.cfg_index.max(0) as usize).cloned().unwrap_or_else(|| {
                eprintln!("harness: cfg-index out of range");
                std::process::exit(2);
            });
            let max_n = if p.max_n > 0 { p.max_n } else { 3 };
            for n in 0..=max_n {
                let acc_codes: Vec<u64> = if n == 0 { vec![0] } else if n <= 2 { (0..3u64.pow(n as u32)).collect() } else { vec![0, 8, 5, 26, 17] };
                for (gi, e) in fwd_dags(n).iter().enumerate() {
                    for &code in &acc_codes {
                        if !sel.take() {
                            continue;
                        }
                        let (reads, writes) = access_of(n, 1, code);
                        let mut s = base_scn(format!("i{n}-{gi}-{code}"), n, calls_of(e, gi as u64), reads, writes);
                        s.phases.push(runs_phase(vec![c.clone()]));
                        let x = if streams {
                            ExploreOpts { drop_stream: n <= 2, multi_waker: n <= 2 && gi % 2 == 0 && MULTI_WAKER_IN_SPEC, ..Default::default() }
                        } else {
                            let mut x = xopts_for(&c, 2);
                            x.signal_inside = c.has_channel() && !c.pre_signal;
                            x
                        };
                        exhaustive(&s, &x, true, 64, 4000, &mut emit);
                        if !streams && code == 0 {
                            for (tag, c2) in sync_variants(&c, n, mix(gi as u64, 3)) {
                                let mut s2 = s.clone();
                                s2.id = format!("{}{}", s.id, tag);
                                s2.phases = vec![runs_phase(vec![c2])];
                                exhaustive(&s2, &x, true, 64, 2000, &mut emit);
                            }
                        }
                    }
                }
            }
            // a few random larger ones
            let mut rng = Rng::new(p.seed ^ 0x1A91 ^ (p.cfg_index as u64));
            for i in 0..(if thorough { 200 } else { 40 }) {
                let n = 4 + rng.below(5);
                let dens = *rng.pick(&[15u64, 30, 50]);
                let e = random_dag(&mut rng, n, dens, false);
                let (reads, writes) = random_access(&mut rng, n, 2, 70);
                let sub = rng.next();
                if !sel.take() {
                    continue;
                }
                let mut s = base_scn(format!("ir-{i}"), n, calls_of(&e, rng.next()), reads, writes);
                s.phases.push(runs_phase(vec![c.clone()]));
                let x = if streams { ExploreOpts { drop_stream: false, ..Default::default() } } else { xopts_for(&c, 2) };
                let mut r2 = Rng::new(sub);
                let (mut scn, mut trace) = random_walk(&s, &x, true, 8 * n + 12, &mut r2);
                scn.id = s.id.clone();
                if let Some(f) = trace.first_mut() {
                    f["scn"] = Value::String(scn.id.clone());
                }
                emit(&scn, &trace);
            }
        }
        // Histories of several runs on one graph value: sequential (with aborts) or overlapping.
        "multi_seq" | "multi_overlap" => {
            let overlap = p.family == "multi_overlap";
            let mut rng = Rng::new(p.seed ^ if overlap { 0x0E71 } else { 0x5E0 });
            let cnt = if p.count > 0 { p.count } else if thorough { 20_000 } else { 2500 };
            let max_n = if p.max_n > 0 { p.max_n } else { 6 };
            for i in 0..cnt {
                // mostly small graphs; a third of the histories on graphs up to 16 functions
                let long = !overlap && rng.chance(1, 5);
                let n = if long { 1 + rng.below(5) } else if rng.chance(1, 3) { 7 + rng.below(12) } else { rng.below(max_n + 1) };
                let dens = *rng.pick(&[0u64, 10, 20, 40, 60]);
                let mut e = random_dag(&mut rng, n, dens, false);
                if n >= 7 && rng.chance(1, 3) {
                    // binary tree (breadth builds up under a slow consumer), optionally joined at a sink
                    e = (2..=n).map(|c| (c / 2, c)).collect();
                    if rng.chance(1, 3) {
                        let leaves: Vec<usize> = (1..n).filter(|&a| 2 * a > n).collect();
                        for a in leaves {
                            if a != n {
                                e.push((a, n));
                            }
                        }
                        e.retain(|&(a, b)| !(b == n && a == n / 2) || true);
                        e.sort();
                        e.dedup();
                    }
                }
                let none = *rng.pick(&[50u64, 80, 100]);
                let (reads, writes) = random_access(&mut rng, n, 2, none);
                // long histories: per-graph state that only builds up over several runs
                let k = if overlap { 2 + rng.below(3) / 2 } else if long { 5 + rng.below(5) } else { 2 + rng.below(2) };
                let mut runs: Vec<RunCfg> = Vec::new();
                for _ in 0..k {
                    let st = rng.chance(1, 4);
                    let mut c = random_cfg(&mut rng, st);
                    // state left behind usually bites the same code path: often reuse the previous run's
                    // family / mut-ness / direction
                    if let Some(prev) = runs.last() {
                        match rng.below(3) {
                            0 => {
                                c.mutv = prev.mutv;
                                c.order = prev.order.clone();
                                if c.order == "rev" {
                                    c.with = true;
                                }
                            }
                            1 if !prev.is_stream() && !c.is_stream() => {
                                c.mutv = prev.mutv;
                                c.order = prev.order.clone();
                                c.with = c.with || c.order == "rev";
                                c.api = (if prev.api.ends_with("fold") { *rng.pick(&["fold", "try_fold"]) } else { *rng.pick(&["for_each", "try_for_each"]) }).into();
                                if !c.api.ends_with("for_each") {
                                    c.limit = -1;
                                }
                                c.control = c.control && c.api == "try_for_each";
                            }
                            _ => {}
                        }
                    }
                    if overlap {
                        c.mutv = false;
                    }
                    random_sync(&mut rng, &mut c, n, 2);
                    runs.push(c);
                }
                // a quarter of the sequential histories: the runs share ONE interruptibility state (reborrow), so a
                // signal sent during one run is pending when the next begins
                let sharing = !overlap && (rng.chance(1, 4) || p.focus == "share");
                if sharing {
                    for c in runs.iter_mut() {
                        if c.is_stream() {
                            c.api = (*rng.pick(&["fold", "for_each", "try_for_each", "try_fold"])).into();
                            c.limit = -1;
                            c.control = false;
                        }
                        c.with = true;
                        c.strategy = "finish".into();
                        c.k = 0;
                        c.pre_signal = false;
                        c.tx_drop = false;
                        c.sync_sig.clear();
                        c.share = true;
                    }
                }
                let x = ExploreOpts {
                    max_fail: 2,
                    signals: true,
                    aborts: !overlap,
                    overlap,
                    drop_stream: true,
                    spurious_polls: false,
                    defer: !overlap && rng.chance(1, 3),
                    signal_inside: rng.chance(1, 3),
                    fail_bias: false,
                    stream_style: *rng.pick(&[0u8, 0, 1, 2]),
                    multi_waker: rng.chance(1, 4),
                    late: 0,
                    max_signals: 1 + rng.below(3) / 2,
                };
                let mut x = x;
                if sharing {
                    x.signal_inside = false;
                    x.max_signals = 1;
                }
                let sub = rng.next();
                if !sel.take() {
                    continue;
                }
                let mut s = base_scn(format!("{}-{i}", if overlap { "mo" } else { "ms" }), n, calls_of(&e, rng.next()), reads, writes);
                s.phases.push(runs_phase(runs));
                let mut r2 = Rng::new(sub);
                let depth = if long { k * (4 * n + 8) } else { 10 * n + 24 };
                let (mut scn, mut trace) = random_walk(&s, &x, p.hooks || x.signal_inside, depth, &mut r2);
                scn.id = s.id.clone();
                if let Some(f) = trace.first_mut() {
                    f["scn"] = Value::String(scn.id.clone());
                }
                append_fresh(&scn, &mut trace, if overlap { "overlap" } else { "seq" });
                emit(&scn, &trace);
            }
        }
        // Two or three runs on one graph value, each living on its own OS thread (turn-taking): whatever the code under
        // test keeps per thread, or assumes about the thread that wakes / drops, differs from the single-threaded histories.
        "multi_threads" => {
            let mut rng = Rng::new(p.seed ^ 0x7A2EAD5);
            let cnt = if p.count > 0 { p.count } else if thorough { 6000 } else { 600 };
            let max_n = if p.max_n > 0 { p.max_n } else { 6 };
            for i in 0..cnt {
                let n = if rng.chance(1, 4) { 7 + rng.below(8) } else { 1 + rng.below(max_n) };
                let dens = *rng.pick(&[0u64, 10, 20, 40, 60]);
                let mut e = random_dag(&mut rng, n, dens, false);
                if n >= 3 && rng.chance(1, 3) {
                    // fan-in: the last function waits for all others
                    e = (1..n).map(|a| (a, n)).collect();
                }
                let none = *rng.pick(&[50u64, 80, 100]);
                let (reads, writes) = random_access(&mut rng, n, 2, none);
                let k = 2 + rng.below(3) / 2;
                let mut runs: Vec<RunCfg> = Vec::new();
                for _ in 0..k {
                    let st = rng.chance(1, 3);
                    let mut c = random_cfg(&mut rng, st);
                    c.mutv = false;
                    if let Some(prev) = runs.last() {
                        if rng.chance(1, 2) {
                            c = prev.clone();
                        }
                    }
                    random_sync(&mut rng, &mut c, n, 1);
                    // no in-poll signals here: they need fn_graph's own events, whose sink is thread-local
                    c.sync_sig.clear();
                    runs.push(c);
                }
                let x = ExploreOpts {
                    max_fail: 1,
                    signals: true,
                    overlap: true,
                    drop_stream: true,
                    stream_style: *rng.pick(&[0u8, 0, 1, 2]),
                    ..Default::default()
                };
                let sub = rng.next();
                if !sel.take() {
                    continue;
                }
                let mut s = base_scn(format!("mt-{i}"), n, calls_of(&e, rng.next()), reads, writes);
                s.threads = true;
                s.phases.push(runs_phase(runs));
                let mut r2 = Rng::new(sub);
                let (mut scn, mut trace) = random_walk_online(&s, &x, false, 10 * n + 24, &mut r2);
                scn.id = s.id.clone();
                if let Some(f) = trace.first_mut() {
                    f["scn"] = Value::String(scn.id.clone());
                }
                append_fresh(&scn, &mut trace, "overlap");
                emit(&scn, &trace);
            }
        }
        // Exhaustive two-run histories on tiny graphs.
        "multi_exh" => {
            let max_n = if p.max_n > 0 { p.max_n } else { 2 };
            let overlap_modes: &[bool] = if p.focus == "overlap" { &[true] } else if p.focus == "seq" { &[false] } else { &[false, true] };
            let pool: Vec<RunCfg> = {
                let mut v = Vec::new();
                let all = call_cfgs(false);
                for (i, c) in all.iter().enumerate() {
                    if i % 7 == 0 {
                        v.push(c.clone());
                    }
                }
                v.extend(stream_cfgs().into_iter().step_by(4));
                v
            };
            for n in 1..=max_n {
                for (gi, e) in fwd_dags(n).iter().enumerate() {
                    for (ai, a) in pool.iter().enumerate() {
                        for (bi, b) in pool.iter().enumerate() {
                            for &overlap in overlap_modes {
                                if overlap && (a.mutv || b.mutv) {
                                    continue;
                                }
                                if !sel.take() {
                                    continue;
                                }
                                let mut s = base_scn(format!("mx{n}-{gi}-{ai}-{bi}-{}", overlap as u8), n, calls_of(e, 0), vec![], vec![]);
                                s.phases.push(runs_phase(vec![a.clone(), b.clone()]));
                                let x = ExploreOpts {
                                    max_fail: 1,
                                    signals: true,
                                    aborts: !overlap,
                                    overlap,
                                    drop_stream: !overlap,
                                    spurious_polls: false,
                                    defer: false,
                                    signal_inside: false,
                                    fail_bias: false,
                                    stream_style: 0,
                                    multi_waker: false,
                                    late: 0,
                                    max_signals: 1,
                                };
                                let mode = if overlap { "overlap" } else { "seq" };
                                let mut emit2 = |sc: &Scenario, t: &[Value]| {
                                    let mut t = t.to_vec();
                                    append_fresh(sc, &mut t, mode);
                                    emit(sc, &t);
                                };
                                exhaustive(&s, &x, p.hooks, 40, 3000, &mut emit2);
                            }
                        }
                    }
                }
            }
        }
        // tokio's cooperative budget running out INSIDE fn_graph's own channel / lock operations: a random schedule
        // (deferred completions, failures, in-poll signals) is recorded once and replayed with 96..=127 budget
        // units already spent at the start of every task poll (or of every second one).
        "budget" => {
            let mut rng = Rng::new(p.seed ^ 0xB0D6E7);
            let cnt = if p.count > 0 { p.count } else if thorough { 500 } else { 70 };
            for i in 0..cnt {
                let n = 2 + rng.below(3);
                let dens = *rng.pick(&[0u64, 25, 50]);
                let e = random_dag(&mut rng, n, dens, false);
                let mut c = random_cfg(&mut rng, false);
                for _ in 0..64 {
                    if focus_ok(&c, &p.focus) && (c.is_try() || c.has_channel()) {
                        break;
                    }
                    c = random_cfg(&mut rng, false);
                }
                if c.api.ends_with("for_each") && rng.chance(2, 3) {
                    c.limit = -1;
                }
                c.pre_signal = false;
                let mut x = xopts_for(&c, 2);
                x.defer = true;
                x.signal_inside = true;
                x.fail_bias = rng.chance(1, 2);
                let sub = rng.next();
                let every_second = rng.chance(1, 3);
                if !sel.take() {
                    continue;
                }
                let mut s = base_scn(format!("bu-{i}"), n, calls_of(&e, rng.next()), vec![], vec![]);
                s.tokio = true;
                s.phases.push(runs_phase(vec![c]));
                let mut r2 = Rng::new(sub);
                let (scn, _) = random_walk(&s, &x, false, 6 * n + 12, &mut r2);
                for b in 96..=127u32 {
                    let mut s2 = scn.clone();
                    s2.id = format!("bu-{i}-{b}");
                    s2.burn = if every_second { vec![0, b] } else { vec![b] };
                    let r = run_scenario(&s2, p.hooks || x.signal_inside, &x);
                    emit(&s2, &r.trace);
                }
            }
        }
        // The same, systematically: EVERY schedule (deferred completions, one failure, in-poll signals) of the concurrent
        // bodies on the graphs of 2 and 3 functions, each replayed with 1..=4 budget units left per task poll.
        "budget_exh" => {
            let max_n = if p.max_n > 0 { p.max_n } else { 3 };
            let cfgs: Vec<RunCfg> = call_cfgs(false)
                .into_iter()
                .filter(|c| c.api.ends_with("for_each") && c.limit == -1 && !c.pre_signal && c.order == "fwd" && (c.is_try() || c.has_channel()))
                .collect();
            for n in 2..=max_n {
                for (gi, e) in fwd_dags(n).iter().enumerate() {
                    for (ci, c) in cfgs.iter().enumerate() {
                        if !focus_ok(c, &p.focus) {
                            continue;
                        }
                        if !sel.take() {
                            continue;
                        }
                        let mut s = base_scn(format!("bx{n}-{gi}-{ci}"), n, calls_of(e, 0), vec![], vec![]);
                        s.tokio = true;
                        s.phases.push(runs_phase(vec![c.clone()]));
                        let mut x = xopts_for(c, 1);
                        x.defer = true;
                        x.signal_inside = c.has_channel();
                        x.signals = false;
                        let hooks = p.hooks || x.signal_inside;
                        let mut bases: Vec<Scenario> = Vec::new();
                        let mut keep = |sc: &Scenario, _t: &[Value]| bases.push(sc.clone());
                        exhaustive(&s, &x, false, 40, 4000, &mut keep);
                        for (tag, c2) in sync_variants(c, n, mix(gi as u64, ci as u64)) {
                            let mut s2 = s.clone();
                            s2.id = format!("{}{}", s.id, tag);
                            s2.phases = vec![runs_phase(vec![c2])];
                            exhaustive(&s2, &x, false, 40, 1000, &mut keep);
                        }
                        for b in &bases {
                            for left in 1..=4u32 {
                                let mut s2 = b.clone();
                                s2.id = format!("{}-l{left}", b.id);
                                s2.burn = vec![128 - left];
                                let r = run_scenario(&s2, hooks, &x);
                                emit(&s2, &r.trace);
                            }
                        }
                    }
                }
            }
        }
        // Sizes beyond the usual fixed-size thresholds, a handful of inputs each: functions declaring 17..40 data types,
        // graphs mentioning up to 128 distinct types, functions with 256+ direct predecessors / successors, runs that
        // process 256+ functions before they stop, streams over 1024+ functions without predecessors.
        "scale" => {
            let mut rng = Rng::new(p.seed ^ 0x5CA1E);
            let reps = if p.count > 0 { p.count as usize } else if thorough { 6 } else { 1 };
            let mut idx = 0u64;
            // --focus types | preds | stop | roots selects a part
            let part = |name: &str| p.focus.is_empty() || p.focus == name;
            // (a) many types per function
            for i in 0..(if part("types") { 60 * reps } else { 0 }) {
                let n = 2 + rng.below(5);
                let mut reads = vec![vec![]; n];
                let mut writes = vec![vec![]; n];
                if i % 3 == 0 {
                    // everything from one pool: functions usually conflict on several types
                    let pool = 18 + rng.below(40);
                    for f in 0..n {
                        let want = *rng.pick(&[3usize, 12, 17, 18, 24, 33]);
                        let mut ts: Vec<usize> = (1..=pool).collect();
                        for a in (1..ts.len()).rev() {
                            let b = rng.below(a + 1);
                            ts.swap(a, b);
                        }
                        ts.truncate(std::cmp::min(want, pool));
                        let wpct = *rng.pick(&[5u64, 50, 95]);
                        for t in ts {
                            if rng.next() % 100 < wpct {
                                writes[f].push(t);
                            } else {
                                reads[f].push(t);
                            }
                        }
                    }
                } else {
                    // many types of its own per function, and a few types shared by two or three functions:
                    // a pair of functions then conflicts on exactly one type
                    let mut next = 1usize;
                    for f in 0..n {
                        let own = *rng.pick(&[0usize, 3, 15, 16, 17, 20]);
                        let wpct = *rng.pick(&[0u64, 10, 50, 90, 100]);
                        for _ in 0..own {
                            if rng.next() % 100 < wpct {
                                writes[f].push(next);
                            } else {
                                reads[f].push(next);
                            }
                            next += 1;
                        }
                    }
                    for _ in 0..(1 + rng.below(3)) {
                        let t = next;
                        next += 1;
                        let a = rng.below(n);
                        let mut b = rng.below(n);
                        if b == a {
                            b = (a + 1) % n;
                        }
                        writes[a].push(t);
                        if rng.chance(2, 3) {
                            reads[b].push(t);
                        } else {
                            writes[b].push(t);
                        }
                        if rng.chance(1, 4) {
                            reads[a].push(t);
                        }
                    }
                    for v in reads.iter_mut().chain(writes.iter_mut()) {
                        for a in (1..v.len()).rev() {
                            let b = rng.below(a + 1);
                            v.swap(a, b);
                        }
                    }
                }
                let dens = *rng.pick(&[0u64, 0, 20]);
                let e = random_dag(&mut rng, n, dens, false);
                let streams = rng.chance(1, 3);
                let mut c = random_cfg(&mut rng, streams);
                if !streams {
                    c.api = (*rng.pick(&["for_each", "try_for_each"])).into();
                    c.limit = -1;
                    c.control = c.control && c.api == "try_for_each";
                }
                let sub = rng.next();
                idx += 1;
                if !sel.take() {
                    continue;
                }
                let mut s = base_scn(format!("sc-ty-{i}-{idx}"), n, calls_of(&e, rng.next()), reads, writes);
                s.phases.push(Phase::GraphInfo);
                s.phases.push(runs_phase(vec![c.clone()]));
                let x = xopts_for(&c, 1);
                let mut r2 = Rng::new(sub);
                let (mut scn, mut trace) = random_walk(&s, &x, p.hooks, 8 * n + 12, &mut r2);
                scn.id = s.id.clone();
                if let Some(f) = trace.first_mut() {
                    f["scn"] = Value::String(scn.id.clone());
                }
                emit(&scn, &trace);
            }
            // (b) many distinct types in one graph: every function has a type of its own, a few share
            for i in 0..(if part("types") { 4 * reps } else { 0 }) {
                let n = *rng.pick(&[63usize, 64, 65, 66, 70, 100, 128]);
                let mut reads = vec![vec![]; n];
                let mut writes = vec![vec![]; n];
                let mut order: Vec<usize> = (1..=n).collect();
                if rng.chance(1, 2) {
                    for a in (1..n).rev() {
                        let b = rng.below(a + 1);
                        order.swap(a, b);
                    }
                }
                for f in 0..n {
                    if rng.chance(3, 4) {
                        writes[f].push(order[f]);
                    } else {
                        reads[f].push(order[f]);
                    }
                    if rng.chance(1, 10) {
                        let t = 1 + rng.below(n);
                        if !writes[f].contains(&t) && !reads[f].contains(&t) {
                            reads[f].push(t);
                        }
                    }
                }
                let e: Vec<(usize, usize)> = if rng.chance(1, 2) { vec![] } else { random_dag(&mut rng, n, 1, false) };
                let mut c = cfg(*rng.pick(&["for_each", "try_for_each", "stream"]), false, false);
                if rng.chance(1, 2) {
                    c.with = true;
                    c.order = "rev".into();
                }
                let sub = rng.next();
                idx += 1;
                if !sel.take() {
                    continue;
                }
                let mut s = base_scn(format!("sc-sp-{i}-{idx}"), n, calls_of(&e, rng.next()), reads, writes);
                s.phases.push(Phase::GraphInfo);
                s.phases.push(runs_phase(vec![c.clone()]));
                let mut x = xopts_for(&c, 0);
                x.stream_style = 2;
                x.signals = false;
                let mut r2 = Rng::new(sub);
                let (mut scn, mut trace) = random_walk_online(&s, &x, false, 8 * n + 12, &mut r2);
                scn.id = s.id.clone();
                if let Some(f) = trace.first_mut() {
                    f["scn"] = Value::String(scn.id.clone());
                }
                emit(&scn, &trace);
            }
            // (c) 256+ direct predecessors / successors; (d) 256+ functions processed before an early stop
            let shapes: Vec<(&str, usize)> = vec![
                ("fanin", 258), ("fanin", 302), ("fanout", 258), ("diamond", 259), ("chain_desc", 300), ("chain_asc", 280), ("fanin_fail", 290),
            ];
            for (si, (shape, n)) in shapes.iter().enumerate() {
                let stop = matches!(*shape, "chain_desc" | "chain_asc" | "fanin_fail");
                if !(if stop { part("stop") } else { part("preds") }) {
                    continue;
                }
                for rep in 0..reps {
                    let n = *n + if rep > 0 { rng.below(40) } else { 0 };
                    let e: Vec<(usize, usize)> = match *shape {
                        // 1..n-1 -> n
                        "fanin" | "fanin_fail" => (1..n).map(|a| (a, n)).collect(),
                        "fanout" => (2..=n).map(|b| (1, b)).collect(),
                        "diamond" => {
                            let mut v: Vec<(usize, usize)> = (2..n).map(|b| (1, b)).collect();
                            v.extend((2..n).map(|a| (a, n)));
                            v
                        }
                        "chain_desc" => (1..n).map(|a| (a + 1, a)).collect(),
                        _ => (1..n).map(|a| (a, a + 1)).collect(),
                    };
                    let early_stop = matches!(*shape, "chain_desc" | "chain_asc" | "fanin_fail");
                    let mut c = match (si + rep) % 4 {
                        0 => cfg("stream", false, false),
                        1 => cfg("for_each", false, false),
                        2 => cfg("fold", rep % 2 == 1, false),
                        _ => cfg("try_for_each", false, rep % 2 == 1),
                    };
                    if early_stop {
                        c = if (si + rep) % 2 == 0 { cfg("try_for_each", false, rep % 2 == 1) } else { cfg("for_each", false, false) };
                        if c.api == "for_each" {
                            c.with = true;
                            c.strategy = "finish".into();
                        }
                    }
                    if *shape == "fanout" || rng.chance(1, 3) {
                        c.with = true;
                        c.order = if *shape == "fanout" || rng.chance(1, 2) { "rev".into() } else { "fwd".into() };
                    }
                    if *shape == "chain_asc" {
                        c.with = true;
                        c.order = "rev".into();
                    }
                    let sub = rng.next();
                    idx += 1;
                    if !sel.take() {
                        continue;
                    }
                    let mut s = base_scn(format!("sc-{shape}-{n}-{idx}"), n, calls_of(&e, 0), vec![], vec![]);
                    s.phases.push(runs_phase(vec![c.clone()]));
                    let mut x = xopts_for(&c, if early_stop { 1 } else { 0 });
                    x.signals = early_stop && c.has_channel();
                    x.late = if early_stop { 257 + rng.below(n - 262) } else { 0 };
                    x.stream_style = 2;
                    let mut r2 = Rng::new(sub);
                    let (mut scn, mut trace) = random_walk_online(&s, &x, false, 6 * n + 40, &mut r2);
                    scn.id = s.id.clone();
                    if let Some(f) = trace.first_mut() {
                        f["scn"] = Value::String(scn.id.clone());
                    }
                    emit(&scn, &trace);
                }
            }
            // (e) more functions without predecessors than any fixed preload size
            for rep in 0..(if part("roots") { reps } else { 0 }) {
                let roots = 1026 + rng.below(40);
                let n = roots + 2;
                // the last two functions: parent -> child (so that a non-root exists)
                let e = vec![(n - 1, n)];
                let mut c = cfg("stream", false, false);
                if rep % 2 == 1 {
                    c.with = true;
                    c.order = "rev".into();
                }
                let sub = rng.next();
                idx += 1;
                if !sel.take() {
                    continue;
                }
                let mut s = base_scn(format!("sc-roots-{n}-{idx}"), n, calls_of(&e, 0), vec![], vec![]);
                s.phases.push(runs_phase(vec![c.clone()]));
                let mut x = xopts_for(&c, 0);
                x.signals = false;
                x.stream_style = if rep % 3 == 2 { 2 } else { 1 };
                let mut r2 = Rng::new(sub);
                let (mut scn, mut trace) = random_walk_online(&s, &x, false, 4 * n + 40, &mut r2);
                scn.id = s.id.clone();
                if let Some(f) = trace.first_mut() {
                    f["scn"] = Value::String(scn.id.clone());
                }
                emit(&scn, &trace);
            }
        }
        f => {
            eprintln!("harness: unknown family {f}");
            std::process::exit(2);
        }
    }
}
