//! The function type stored in the graph, and the builder phase: every builder
//! call and `build()` are logged with their results.

use std::any::TypeId;
use std::panic::{catch_unwind, AssertUnwindSafe};

use fn_graph::{DataAccessDyn, Edge, FnGraph, FnGraphBuilder, FnId, TypeIds};
use serde_json::{json, Value};

use crate::scenario::{BCall, Scenario};
use crate::world::W;

/// Data types: `M<1>` .. `M<128>` (distinct `TypeId`s).
pub struct M<const I: usize>;

macro_rules! marker_table {
    ($($i:literal)*) => {
        fn marker_ids() -> &'static [TypeId] {
            static IDS: std::sync::OnceLock<Vec<TypeId>> = std::sync::OnceLock::new();
            IDS.get_or_init(|| vec![$(TypeId::of::<M<$i>>()),*])
        }
    };
}
marker_table!(1 2 3 4 5 6 7 8 9 10 11 12 13 14 15 16 17 18 19 20 21 22 23 24 25 26 27 28 29 30 31 32
    33 34 35 36 37 38 39 40 41 42 43 44 45 46 47 48 49 50 51 52 53 54 55 56 57 58 59 60 61 62 63 64
    65 66 67 68 69 70 71 72 73 74 75 76 77 78 79 80 81 82 83 84 85 86 87 88 89 90 91 92 93 94 95 96
    97 98 99 100 101 102 103 104 105 106 107 108 109 110 111 112 113 114 115 116 117 118 119 120 121 122 123 124 125 126 127 128);

pub const TYPES_MAX: usize = 128;

pub fn type_id_of(i: usize) -> TypeId {
    let ids = marker_ids();
    assert!(i >= 1 && i <= ids.len(), "harness: data type index {i} out of range");
    ids[i - 1]
}

#[derive(Clone, Debug)]
pub struct Node {
    /// 1-based insertion index.
    pub id: usize,
    pub tag: u32,
    pub reads: Vec<usize>,
    pub writes: Vec<usize>,
    /// Mutated by the `_mut` APIs (exercises the `&mut F` hand-out).
    pub touched: u32,
}

/// What the caller regards as "the function": everything but the scratch counter.
impl PartialEq for Node {
    fn eq(&self, o: &Self) -> bool {
        self.id == o.id && self.tag == o.tag && self.reads == o.reads && self.writes == o.writes
    }
}

impl DataAccessDyn for Node {
    fn borrows(&self) -> TypeIds {
        self.reads.iter().map(|&t| type_id_of(t)).collect()
    }
    fn borrow_muts(&self) -> TypeIds {
        self.writes.iter().map(|&t| type_id_of(t)).collect()
    }
}

pub fn nodes_of(scn: &Scenario) -> Vec<Node> {
    (1..=scn.n)
        .map(|id| Node {
            id,
            tag: scn.tags.get(id - 1).copied().unwrap_or(id as u32),
            reads: scn.reads.get(id - 1).cloned().unwrap_or_default(),
            writes: scn.writes.get(id - 1).cloned().unwrap_or_default(),
            touched: 0,
        })
        .collect()
}

fn fid(i: usize) -> FnId {
    FnId::new(i - 1)
}

pub fn kind_str(e: &Edge) -> &'static str {
    match e {
        Edge::Logic => "logic",
        Edge::Contains => "contains",
        Edge::Data => "data",
    }
}

macro_rules! batch {
    ($b:expr, $kind:expr, $pairs:expr, $($n:literal),*) => {
        match $pairs.len() {
            $($n => {
                let mut arr = [(FnId::new(0), FnId::new(0)); $n];
                for (i, p) in $pairs.iter().enumerate() { arr[i] = (fid(p[0]), fid(p[1])); }
                if $kind == "logic" { $b.add_logic_edges(arr).is_ok() } else { $b.add_contains_edges(arr).is_ok() }
            })*
            _ => panic!("harness: batch size not supported"),
        }
    };
}

/// Applies the builder calls; logs each call with its result when `w` is given.
macro_rules! add_fns_n {
    ($b:expr, $chunk:expr, $log:expr, $($n:literal),*) => {
        match $chunk.len() {
            $($n => {
                let wants: Vec<usize> = $chunk.iter().map(|x| x.id).collect();
                let arr: [Node; $n] = match <[Node; $n]>::try_from(std::mem::take(&mut $chunk)) {
                    Ok(a) => a,
                    Err(_) => unreachable!(),
                };
                let ids = $b.add_fns(arr);
                for (want, id) in wants.iter().zip(ids.iter()) {
                    $log(*want, id.index() + 1);
                }
            })*
            _ => unreachable!(),
        }
    };
}

pub fn apply_calls(
    nodes: Vec<Node>,
    calls: &[BCall],
    w: Option<&W>,
) -> FnGraphBuilder<Node> {
    apply_calls_with(nodes, calls, w, false)
}

pub fn apply_calls_with(
    nodes: Vec<Node>,
    calls: &[BCall],
    w: Option<&W>,
    batch_fns: bool,
) -> FnGraphBuilder<Node> {
    let mut b = FnGraphBuilder::<Node>::new();
    let late = calls.iter().filter(|c| matches!(c, BCall::Fn)).count();
    let upfront = nodes.len().saturating_sub(late);
    let mut nodes = nodes.into_iter();
    let mut add = |b: &mut FnGraphBuilder<Node>, node: Node| {
        let want = node.id;
        let id = b.add_fn(node);
        if let Some(w) = w {
            w.borrow_mut()
                .ev(json!({"ev":"add_fn","want":want,"id":id.index()+1}));
        }
    };
    if batch_fns {
        // arrays of 1..=6 functions, sizes cycling 3, 1, 6, 2, 5, 4
        let log = |want: usize, id: usize| {
            if let Some(w) = w {
                w.borrow_mut().ev(json!({"ev":"add_fn","want":want,"id":id,"batch":true}));
            }
        };
        let mut left = upfront;
        let mut k = 0;
        while left > 0 {
            let size = std::cmp::min(left, [3usize, 1, 6, 2, 5, 4][k % 6]);
            k += 1;
            let mut chunk: Vec<Node> = (0..size).filter_map(|_| nodes.next()).collect();
            left -= size;
            add_fns_n!(b, chunk, log, 1, 2, 3, 4, 5, 6);
        }
    } else {
        for _ in 0..upfront {
            if let Some(node) = nodes.next() {
                add(&mut b, node);
            }
        }
    }
    for c in calls {
        match c {
            BCall::Fn => {
                if let Some(node) = nodes.next() {
                    add(&mut b, node);
                }
            }
            BCall::Edge { kind, a, b: bb } => {
                let res = if kind == "logic" {
                    b.add_logic_edge(fid(*a), fid(*bb)).is_ok()
                } else {
                    b.add_contains_edge(fid(*a), fid(*bb)).is_ok()
                };
                if let Some(w) = w {
                    w.borrow_mut().ev(json!({"ev":"add_edge","kind":kind,"a":a,"b":bb,
                        "res": if res {"ok"} else {"cycle"}}));
                }
            }
            BCall::Edges { kind, pairs } => {
                let res = if pairs.is_empty() {
                    let arr: [(FnId, FnId); 0] = [];
                    if kind == "logic" {
                        b.add_logic_edges(arr).is_ok()
                    } else {
                        b.add_contains_edges(arr).is_ok()
                    }
                } else {
                    batch!(b, kind, pairs, 1, 2, 3, 4, 5, 6, 7, 8, 9, 10, 11, 12)
                };
                if let Some(w) = w {
                    w.borrow_mut().ev(json!({"ev":"add_edges","kind":kind,"pairs":pairs,
                        "res": if res {"ok"} else {"cycle"}}));
                }
            }
        }
    }
    b
}

pub fn edges_json(g: &FnGraph<Node>) -> Value {
    Value::Array(
        g.raw_edges()
            .iter()
            .map(|e| json!([e.source().index() + 1, e.target().index() + 1, kind_str(&e.weight)]))
            .collect(),
    )
}

pub fn ranks_json(g: &FnGraph<Node>) -> Value {
    Value::Array(g.ranks().iter().map(|r| json!(r.0)).collect())
}

pub fn panic_msg(p: Box<dyn std::any::Any + Send>) -> String {
    if let Some(s) = p.downcast_ref::<&str>() {
        s.to_string()
    } else if let Some(s) = p.downcast_ref::<String>() {
        s.clone()
    } else {
        "panic".to_string()
    }
}

/// Builds the graph of the scenario, logging `build`. `None` if `build()` panicked.
/// Result of `build()` under the watchdog.
enum Built {
    Ok(FnGraph<Node>, i64, Vec<String>),
    Panic(String),
    Timeout,
    /// the process grew by this many bytes during the build
    Memory(u64),
}

/// Resident set size of this process in bytes (Linux), 0 if unknown.
fn rss_bytes() -> u64 {
    std::fs::read_to_string("/proc/self/statm")
        .ok()
        .and_then(|s| s.split_whitespace().nth(1).and_then(|p| p.parse::<u64>().ok()))
        .map(|pages| pages * 4096)
        .unwrap_or(0)
}

type Job = Box<dyn FnOnce() -> Built + Send>;

thread_local! {
    /// The builder thread of this harness thread: ONE long-lived worker, so that whatever fn_graph keeps per thread
    /// between two `build()` calls is kept, as in a real program.
    static BUILDER: std::cell::RefCell<Option<(std::sync::mpsc::Sender<Job>, std::sync::mpsc::Receiver<Built>)>> =
        const { std::cell::RefCell::new(None) };
}

/// `build()`, on the builder thread whenever the input is large enough for path-counting work to matter (12 functions
/// or more, or the scenario says so). A build that has not finished after BUILD_SECS, or during which the process grows
/// by more than BUILD_BYTES, is given up -- the thread is left behind and the harness stops after this scenario.
/// fn_graph's hook sink is thread-local, so the builder thread switches it on itself and hands the events and the
/// pop counter back.
fn build_watched(b: FnGraphBuilder<Node>, n: usize, force: bool, hooks_on: bool) -> Built {
    let run = move || {
        #[cfg(feature = "hooks")]
        let _ = fn_graph::verif_hooks::drain();
        let r = catch_unwind(AssertUnwindSafe(move || b.build()));
        #[cfg(feature = "hooks")]
        let (pops, evs) = (
            // the pop counter counts whether or not the event sink is on
            fn_graph::verif_hooks::rank_pops() as i64,
            fn_graph::verif_hooks::drain(),
        );
        #[cfg(not(feature = "hooks"))]
        let (pops, evs) = (-1i64, Vec::<String>::new());
        match r {
            Ok(g) => Built::Ok(g, pops, evs),
            Err(p) => Built::Panic(panic_msg(p)),
        }
    };
    if n < 12 && !force {
        return run();
    }
    let job: Job = Box::new(move || {
        #[cfg(feature = "hooks")]
        {
            if hooks_on {
                fn_graph::verif_hooks::start();
            } else {
                fn_graph::verif_hooks::stop();
            }
        }
        run()
    });
    BUILDER.with(|cell| {
        let mut cell = cell.borrow_mut();
        if cell.is_none() {
            let (jtx, jrx) = std::sync::mpsc::channel::<Job>();
            let (rtx, rrx) = std::sync::mpsc::channel::<Built>();
            std::thread::spawn(move || {
                while let Ok(job) = jrx.recv() {
                    if rtx.send(job()).is_err() {
                        break;
                    }
                }
            });
            *cell = Some((jtx, rrx));
        }
        let (jtx, rrx) = cell.as_ref().expect("builder thread");
        if jtx.send(job).is_err() {
            return Built::Panic("harness: builder thread gone".into());
        }
        let t0 = std::time::Instant::now();
        let rss0 = rss_bytes();
        loop {
            match rrx.recv_timeout(std::time::Duration::from_millis(50)) {
                Ok(r) => return r,
                Err(std::sync::mpsc::RecvTimeoutError::Timeout) => {
                    let grown = rss_bytes().saturating_sub(rss0);
                    if t0.elapsed().as_secs() >= BUILD_SECS || grown > BUILD_BYTES {
                        crate::ABANDON.store(true, std::sync::atomic::Ordering::SeqCst);
                        return if grown > BUILD_BYTES { Built::Memory(grown) } else { Built::Timeout };
                    }
                }
                Err(_) => return Built::Panic("harness: builder thread died".into()),
            }
        }
    })
}

pub fn build_logged(scn: &Scenario, w: &W) -> Option<FnGraph<Node>> {
    let b = apply_calls_with(nodes_of(scn), &scn.calls, Some(w), scn.add_fns);
    let hooks_on = w.borrow().hooks_on;
    // events fn_graph emitted during the builder calls (none today) stay in front of the build's own
    w.borrow_mut().drain_hooks();
    match build_watched(b, scn.n, scn.watchdog, hooks_on) {
        Built::Ok(g, pops, evs) => {
            {
                let mut world = w.borrow_mut();
                if hooks_on {
                    for s in evs {
                        match serde_json::from_str::<Value>(&s) {
                            Ok(mut v) => {
                                v["run"] = json!(world.cur_run);
                                v["hook"] = json!(true);
                                world.log.push(v);
                            }
                            Err(e) => world.log.push(json!({"ev":"hook_parse_error","raw":s,"err":e.to_string()})),
                        }
                    }
                }
            }
            let ids: Vec<usize> = g
                .iter_insertion_with_indices()
                .map(|(i, node)| if i.index() + 1 == node.id { node.id } else { 0 })
                .collect();
            let ev = json!({"ev":"build","edges":edges_json(&g),"ranks":ranks_json(&g),
                "rank_pops":pops,"ids":ids,"panic":""});
            w.borrow_mut().ev(ev);
            Some(g)
        }
        Built::Panic(msg) => {
            w.borrow_mut().ev(json!({"ev":"build","edges":[],"ranks":[],"rank_pops":-1,
                "ids":[],"panic":msg}));
            None
        }
        Built::Timeout => {
            w.borrow_mut().ev(json!({"ev":"build_timeout","n":scn.n,"secs":BUILD_SECS,"why":"time"}));
            None
        }
        Built::Memory(bytes) => {
            w.borrow_mut().ev(json!({"ev":"build_timeout","n":scn.n,"secs":BUILD_SECS,"why":"memory","bytes":bytes}));
            None
        }
    }
}

/// How long `build()` may take (inputs of at most ~1100 functions; the code as given needs milliseconds) ...
pub const BUILD_SECS: u64 = 30;
/// ... and by how much the process may grow meanwhile (the code as given needs a few MB).
pub const BUILD_BYTES: u64 = 3 << 30;

pub fn build_quiet(scn: &Scenario) -> Option<FnGraph<Node>> {
    let b = apply_calls_with(nodes_of(scn), &scn.calls, None, scn.add_fns);
    match build_watched(b, scn.n, scn.watchdog, false) {
        Built::Ok(g, _, _) => Some(g),
        _ => None,
    }
}
