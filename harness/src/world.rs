//! Shared observation log, gate futures and the flag waker of the controlled
//! executor. Single-threaded on purpose: every run is a deterministic function
//! of the driver's choices.

use std::{
    cell::RefCell,
    collections::BTreeMap,
    future::Future,
    pin::Pin,
    rc::Rc,
    sync::{
        atomic::{AtomicBool, Ordering},
        Arc,
    },
    task::{Context, Poll, Wake, Waker},
};

use serde_json::{json, Value};

#[derive(Default, Debug)]
pub struct Gate {
    pub open: bool,
    pub ok: bool,
    pub started: bool,
    pub ended: bool,
    pub waker: Option<Waker>,
    /// Sender through which the function interrupts the run as it returns (mid-poll signal).
    pub sig_tx: Option<tokio::sync::mpsc::Sender<interruptible::InterruptSignal>>,
}

#[derive(Default)]
pub struct World {
    pub log: Vec<Value>,
    /// (run, f) -> gate
    pub gates: BTreeMap<(usize, usize), Gate>,
    /// Run whose future is being polled (tags hook events).
    pub cur_run: usize,
    pub hooks_on: bool,
    /// (run, f) -> ok: user futures that are ready on their first poll
    pub presync: BTreeMap<(usize, usize), bool>,
    /// (run, f) -> sender: synchronous functions that interrupt the run as they return
    pub presync_sig: BTreeMap<(usize, usize), tokio::sync::mpsc::Sender<interruptible::InterruptSignal>>,
}

pub type W = Rc<RefCell<World>>;

impl World {
    pub fn new(hooks_on: bool) -> W {
        Rc::new(RefCell::new(World {
            hooks_on,
            ..Default::default()
        }))
    }

    /// Moves the hook events emitted by fn_graph so far into the log, keeping
    /// program order relative to the harness' own events.
    pub fn drain_hooks(&mut self) {
        #[cfg(feature = "hooks")]
        if self.hooks_on {
            for s in fn_graph::verif_hooks::drain() {
                match serde_json::from_str::<Value>(&s) {
                    Ok(mut v) => {
                        v["run"] = json!(self.cur_run);
                        v["hook"] = json!(true);
                        self.log.push(v);
                    }
                    Err(e) => self.log.push(json!({"ev":"hook_parse_error","raw":s,"err":e.to_string()})),
                }
            }
        }
    }

    pub fn ev(&mut self, v: Value) {
        self.drain_hooks();
        self.log.push(v);
    }

    pub fn inflight(&self, run: usize) -> Vec<usize> {
        self.gates
            .iter()
            .filter(|((r, _), g)| *r == run && g.started && !g.ended)
            .map(|((_, f), _)| *f)
            .collect()
    }

    pub fn ended_count(&self, run: usize) -> usize {
        self.gates.iter().filter(|((r, _), g)| *r == run && g.ended).count()
    }

    /// In flight and not yet told to complete.
    pub fn openable(&self, run: usize) -> Vec<usize> {
        self.gates
            .iter()
            .filter(|((r, _), g)| *r == run && g.started && !g.ended && !g.open)
            .map(|((_, f), _)| *f)
            .collect()
    }
}

/// Called when the user closure is invoked for `f`: logs `start` and returns
/// the future that completes when the driver opens the gate.
pub fn gate_start(w: &W, run: usize, f: usize) -> GateFut {
    {
        let mut world = w.borrow_mut();
        world.ev(json!({"ev":"start","run":run,"f":f}));
        let dup = {
            let g = world.gates.entry((run, f)).or_default();
            let dup = g.started;
            g.started = true;
            // A second hand-out of the same function gets a fresh gate state.
            if dup {
                g.ended = false;
                g.open = false;
            }
            dup
        };
        let _ = dup;
        if let Some(&ok) = world.presync.get(&(run, f)) {
            let tx = world.presync_sig.get(&(run, f)).cloned();
            let g = world.gates.get_mut(&(run, f)).expect("gate");
            g.open = true;
            g.ok = ok;
            g.sig_tx = tx;
        }
    }
    GateFut {
        w: w.clone(),
        run,
        f,
        done: false,
    }
}

pub struct GateFut {
    w: W,
    run: usize,
    f: usize,
    done: bool,
}

impl Future for GateFut {
    /// `true` = ok, `false` = the function fails.
    type Output = bool;

    fn poll(mut self: Pin<&mut Self>, cx: &mut Context<'_>) -> Poll<bool> {
        assert!(!self.done, "gate future polled after completion");
        let (run, f) = (self.run, self.f);
        let mut world = self.w.borrow_mut();
        let g = world.gates.get_mut(&(run, f)).expect("gate exists");
        if g.open {
            g.ended = true;
            g.waker = None;
            let ok = g.ok;
            if let Some(tx) = g.sig_tx.take() {
                let sent = tx.try_send(interruptible::InterruptSignal).is_ok();
                world.ev(json!({"ev":"signal","run":run,"sent":sent,"inside":f}));
            }
            world.ev(json!({"ev":"end","run":run,"f":f,"ok":ok}));
            drop(world);
            self.done = true;
            Poll::Ready(ok)
        } else {
            g.waker = Some(cx.waker().clone());
            Poll::Pending
        }
    }
}

impl Drop for GateFut {
    fn drop(&mut self) {
        if !self.done {
            // The call future was dropped (abort) or the combinator discarded a
            // started user future: record it, the monitor decides what it means.
            if let Ok(mut world) = self.w.try_borrow_mut() {
                let (run, f) = (self.run, self.f);
                if let Some(g) = world.gates.get_mut(&(run, f)) {
                    g.ended = true;
                    g.waker = None;
                }
                world.ev(json!({"ev":"cancel","run":run,"f":f}));
            }
        }
    }
}

/// Driver side: let `f` complete. Returns false if `f` is not in flight.
pub fn gate_open(
    w: &W,
    run: usize,
    f: usize,
    ok: bool,
    sig_tx: Option<tokio::sync::mpsc::Sender<interruptible::InterruptSignal>>,
) -> bool {
    let waker = {
        let mut world = w.borrow_mut();
        match world.gates.get_mut(&(run, f)) {
            Some(g) if g.started && !g.ended && !g.open => {
                g.open = true;
                g.ok = ok;
                g.sig_tx = sig_tx;
                g.waker.take()
            }
            _ => return false,
        }
    };
    if let Some(waker) = waker {
        waker.wake();
    }
    true
}

pub struct FlagWaker(pub AtomicBool);

impl Wake for FlagWaker {
    fn wake(self: Arc<Self>) {
        self.0.store(true, Ordering::SeqCst);
    }
    fn wake_by_ref(self: &Arc<Self>) {
        self.0.store(true, Ordering::SeqCst);
    }
}

impl FlagWaker {
    pub fn new() -> Arc<Self> {
        Arc::new(FlagWaker(AtomicBool::new(false)))
    }
    pub fn take(&self) -> bool {
        self.0.swap(false, Ordering::SeqCst)
    }
    pub fn get(&self) -> bool {
        self.0.load(Ordering::SeqCst)
    }
}
