//! Scenario format: the input of the harness (written by TLC, by the harness'
//! own explorers, or by hand) and the content of replay files.
//!
//! Ids are 1-based insertion indices (FnId + 1). Data types are small integers.

use serde::{Deserialize, Serialize};

#[derive(Serialize, Deserialize, Clone, Debug, Default)]
pub struct Scenario {
    pub id: String,
    pub n: usize,
    /// `reads[i]` / `writes[i]`: data types function `i+1` declares.
    #[serde(default)]
    pub reads: Vec<Vec<usize>>,
    #[serde(default)]
    pub writes: Vec<Vec<usize>>,
    /// Payload of each function (compared by `==`); defaults to the id.
    #[serde(default)]
    pub tags: Vec<u32>,
    /// Builder calls after the `add_fn`s.
    #[serde(default)]
    pub calls: Vec<BCall>,
    #[serde(default)]
    pub phases: Vec<Phase>,
    /// Poll inside a tokio runtime, so that tokio's cooperative budget (128 channel operations per
    /// task poll) is in force: one budget per poll of a call future, one budget per run of consecutive
    /// stream polls that return items.
    #[serde(default)]
    pub tokio: bool,
    /// tokio mode: budget units spent inside each task poll before the code under test is polled
    /// (the i-th task poll of the scenario uses `burn[i % len]`), so that the budget runs out at
    /// chosen points inside fn_graph's own channel / lock operations.
    #[serde(default, skip_serializing_if = "Vec::is_empty")]
    pub burn: Vec<u32>,
    /// Every run of the `Runs` phase lives on its own OS thread (created, polled, completed and dropped there); the
    /// threads take turns, one driver step at a time. Runs take the graph by shared reference.
    #[serde(default, skip_serializing_if = "std::ops::Not::not")]
    pub threads: bool,
    /// Every `FnRef` of a stream is dropped on ANOTHER thread than the one that polls the stream
    /// (a short-lived thread per drop, joined before the next step).
    #[serde(default, skip_serializing_if = "std::ops::Not::not")]
    pub xdrop: bool,
    /// `build()` runs on its own thread and is given up after 30 s (inputs on which defective path / rank
    /// computations take exponential time).
    #[serde(default, skip_serializing_if = "std::ops::Not::not")]
    pub watchdog: bool,
    /// The functions added up front go through `add_fns` (arrays of up to 6) instead of single `add_fn` calls.
    #[serde(default, skip_serializing_if = "std::ops::Not::not")]
    pub add_fns: bool,
}

#[derive(Serialize, Deserialize, Clone, Debug, PartialEq)]
#[serde(tag = "op", rename_all = "snake_case")]
pub enum BCall {
    Edge { kind: String, a: usize, b: usize },
    Edges { kind: String, pairs: Vec<[usize; 2]> },
    /// `add_fn` of the next function HERE, between edge calls. With k such entries the first n-k functions are
    /// added up front and the others where their entry stands (ids stay 1..n in order).
    Fn,
}

#[derive(Serialize, Deserialize, Clone, Debug)]
#[serde(tag = "op", rename_all = "snake_case")]
pub enum Phase {
    /// Build again (same calls and one-edit variants) and compare with `==`.
    Eq,
    /// Run every sequential API; `fail_at` = 1-based visit position that fails (0 = none).
    Seq {
        #[serde(default)]
        fail_at: usize,
    },
    GraphInfo,
    /// Streaming calls on the built graph.
    Runs { runs: Vec<RunCfg>, steps: Vec<Step> },
}

#[derive(Serialize, Deserialize, Clone, Debug, PartialEq)]
pub struct RunCfg {
    /// fold | try_fold | for_each | try_for_each | stream | stream_int
    pub api: String,
    #[serde(default, rename = "mut")]
    pub mutv: bool,
    #[serde(default)]
    pub control: bool,
    /// Use the `_with` entry point (needed for any non-default option).
    #[serde(default)]
    pub with: bool,
    /// fwd | rev
    #[serde(default = "fwd")]
    pub order: String,
    /// -1 = `None`, otherwise `Some(limit)`.
    #[serde(default = "minus_one")]
    pub limit: i64,
    /// none (options left at default) | non | ignore | finish | poll_n
    #[serde(default = "none")]
    pub strategy: String,
    #[serde(default)]
    pub k: u64,
    #[serde(default = "yes")]
    pub include: bool,
    /// The interrupt signal is already in the channel when the call begins.
    #[serde(default)]
    pub pre_signal: bool,
    /// The caller drops its `Sender<InterruptSignal>` as soon as it has sent the signal
    /// (with `pre_signal`: before the call begins).
    #[serde(default)]
    pub tx_drop: bool,
    /// Functions whose user future is ready on its FIRST poll (no await point), returning ok.
    #[serde(default, skip_serializing_if = "Vec::is_empty")]
    pub sync_ok: Vec<usize>,
    /// The same, failing (Err / Break).
    #[serde(default, skip_serializing_if = "Vec::is_empty")]
    pub sync_fail: Vec<usize>,
    /// Synchronous functions that send the interrupt signal themselves before they return
    /// (the run is interrupted inside the very poll in which the function was started).
    #[serde(default, skip_serializing_if = "Vec::is_empty")]
    pub sync_sig: Vec<usize>,
    /// The run does not own its interruptibility state: all runs of the history with this flag share ONE
    /// `InterruptibilityState` (FinishCurrent) and each gets `state.reborrow()`, as the `interruptible` crate intends for
    /// several streams interrupted by one signal. A signal sent during an earlier sharing run is therefore pending
    /// when a later one begins. Sequential histories only.
    #[serde(default, skip_serializing_if = "std::ops::Not::not")]
    pub share: bool,
}

fn fwd() -> String {
    "fwd".into()
}
fn none() -> String {
    "none".into()
}
fn minus_one() -> i64 {
    -1
}
fn yes() -> bool {
    true
}
fn is_zero(v: &u8) -> bool {
    *v == 0
}

impl RunCfg {
    pub fn is_stream(&self) -> bool {
        self.api == "stream" || self.api == "stream_int"
    }
    pub fn is_try(&self) -> bool {
        self.api == "try_fold" || self.api == "try_for_each"
    }
    pub fn has_channel(&self) -> bool {
        matches!(self.strategy.as_str(), "ignore" | "finish" | "poll_n")
    }
}

#[derive(Serialize, Deserialize, Clone, Debug, PartialEq)]
#[serde(tag = "op", rename_all = "snake_case")]
pub enum Step {
    /// Create run `run` (1-based index into `runs`); a call future gets its first poll.
    Call { run: usize },
    /// Let the in-flight user future of `f` complete (ok or failing).
    Open {
        run: usize,
        f: usize,
        #[serde(default = "yes")]
        ok: bool,
        /// Do not poll afterwards: the next non-deferred step polls.
        #[serde(default)]
        defer: bool,
        /// The function sends the interrupt signal itself, inside the poll in which it returns.
        #[serde(default)]
        signal: bool,
    },
    /// Send the interrupt signal.
    Signal {
        run: usize,
        #[serde(default)]
        defer: bool,
    },
    /// Stream: `poll_next`. Call: a spurious poll. `w` = which task (waker) polls a stream.
    Poll {
        run: usize,
        #[serde(default, skip_serializing_if = "is_zero")]
        w: u8,
    },
    /// Stream: drop the held FnRef of `f`.
    Drop { run: usize, f: usize },
    /// Stream: drop the stream itself (held FnRefs stay).
    DropStream { run: usize },
    /// Call: drop the call future midway.
    Abort { run: usize },
}
