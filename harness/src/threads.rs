//! Runs of one scenario on SEVERAL OS threads: run `i` of the `Runs` phase is created, polled and completed on its own
//! thread, all of them on one shared `&FnGraph`. The threads take turns (one driver step at a time, handed out by the
//! scenario runner), so the recorded log is still one sequential history and every run remains a deterministic function
//! of the driver's choices; what changes is everything that is per-thread in the code under test (thread-locals,
//! per-thread caches) and the thread that sends a wake-up or drops an `FnRef`.

use std::sync::mpsc::{channel, Receiver, Sender};

use fn_graph::FnGraph;
use serde_json::Value;

use crate::graph::Node;
use crate::runs::{Exec, ExploreOpts};
use crate::scenario::{RunCfg, Step};
use crate::world::World;

struct GraphPtr(*mut FnGraph<Node>);
// SAFETY: the graph is only used through `&FnGraph` by non-`mut` runs (enforced by the caller), and `FnGraph<Node>: Sync`.
unsafe impl Send for GraphPtr {}

enum Cmd {
    Step(Step),
    Enabled,
    Finish,
}

struct Reply {
    log: Vec<Value>,
    enabled: Vec<Step>,
    dead: bool,
}

pub fn run_of(st: &Step) -> usize {
    match st {
        Step::Call { run }
        | Step::Open { run, .. }
        | Step::Signal { run, .. }
        | Step::Poll { run, .. }
        | Step::Drop { run, .. }
        | Step::DropStream { run }
        | Step::Abort { run } => *run,
    }
}

fn worker(t: usize, gp: GraphPtr, runs: Vec<RunCfg>, x: ExploreOpts, rx: Receiver<Cmd>, tx: Sender<Reply>) {
    let w = World::new(false);
    let mut ex = Exec::new(w.clone(), gp.0, &runs);
    ex.only = Some(t);
    let take = |ex: &Exec| -> Vec<Value> { std::mem::take(&mut ex.w.borrow_mut().log) };
    while let Ok(cmd) = rx.recv() {
        match cmd {
            Cmd::Step(st) => {
                ex.run_steps(std::slice::from_ref(&st));
                let enabled = ex.enabled(&x);
                let _ = tx.send(Reply { log: take(&ex), enabled, dead: ex.dead });
            }
            Cmd::Enabled => {
                let enabled = ex.enabled(&x);
                let _ = tx.send(Reply { log: take(&ex), enabled, dead: ex.dead });
            }
            Cmd::Finish => {
                ex.finish();
                let log: Vec<Value> = take(&ex).into_iter().filter(|v| v["ev"] != "cancel").collect();
                let dead = ex.dead;
                let _ = tx.send(Reply { log, enabled: Vec::new(), dead });
                if dead {
                    // state after a panic in the code under test is not trusted: leak it
                    std::mem::forget(ex);
                }
                return;
            }
        }
    }
}

/// Executes `steps` (then whatever `choose` picks) with one thread per run. Appends the merged log to `log`;
/// returns (enabled at the end, steps taken, a panic was caught).
pub fn run_threaded(
    gp: *mut FnGraph<Node>,
    runs: &[RunCfg],
    steps: &[Step],
    x: &ExploreOpts,
    mut choose: Option<&mut dyn FnMut(&[Step]) -> Option<Step>>,
    log: &mut Vec<Value>,
) -> (Vec<Step>, Vec<Step>, bool) {
    assert!(runs.iter().all(|c| !c.mutv), "harness: threaded runs take the graph by shared reference");
    let k = runs.len();
    let mut taken: Vec<Step> = Vec::new();
    let mut dead = false;
    let mut enabled_of: Vec<Vec<Step>> = vec![Vec::new(); k];
    std::thread::scope(|scope| {
        let mut cmd_tx: Vec<Sender<Cmd>> = Vec::new();
        let mut rep_rx: Vec<Receiver<Reply>> = Vec::new();
        for t in 0..k {
            let (ctx, crx) = channel::<Cmd>();
            let (rtx, rrx) = channel::<Reply>();
            let gp = GraphPtr(gp);
            let runs = runs.to_vec();
            let x = x.clone();
            scope.spawn(move || worker(t, gp, runs, x, crx, rtx));
            cmd_tx.push(ctx);
            rep_rx.push(rrx);
        }
        let mut ask = |t: usize, cmd: Cmd, log: &mut Vec<Value>, enabled_of: &mut Vec<Vec<Step>>, dead: &mut bool| {
            if cmd_tx[t].send(cmd).is_err() {
                *dead = true;
                return;
            }
            match rep_rx[t].recv() {
                Ok(r) => {
                    log.extend(r.log);
                    enabled_of[t] = r.enabled;
                    *dead |= r.dead;
                }
                Err(_) => *dead = true,
            }
        };
        for t in 0..k {
            ask(t, Cmd::Enabled, log, &mut enabled_of, &mut dead);
        }
        for st in steps {
            if dead {
                break;
            }
            let t = run_of(st);
            if t == 0 || t > k {
                log.push(serde_json::json!({"ev":"diverged","step":serde_json::to_value(st).unwrap()}));
                break;
            }
            ask(t - 1, Cmd::Step(st.clone()), log, &mut enabled_of, &mut dead);
            taken.push(st.clone());
        }
        if let Some(choose) = choose.as_mut() {
            while !dead {
                // runs are created in index order (the monitor numbers them as they appear)
                let calls_done = taken.iter().filter(|st| matches!(st, Step::Call { .. })).count();
                let all: Vec<Step> = enabled_of
                    .iter()
                    .flatten()
                    .filter(|st| !matches!(st, Step::Call { run } if *run != calls_done + 1))
                    .cloned()
                    .collect();
                if all.is_empty() {
                    break;
                }
                match choose(&all) {
                    Some(st) => {
                        let t = run_of(&st);
                        ask(t - 1, Cmd::Step(st.clone()), log, &mut enabled_of, &mut dead);
                        taken.push(st);
                    }
                    None => break,
                }
            }
        }
        let all: Vec<Step> = if dead { Vec::new() } else { enabled_of.iter().flatten().cloned().collect() };
        enabled_of = vec![all];
        for t in 0..k {
            // `end_of_scenario` notes and teardown, thread by thread
            let mut d = false;
            let mut scratch = vec![Vec::new(); k];
            ask(t, Cmd::Finish, log, &mut scratch, &mut d);
            dead |= d;
        }
    });
    (enabled_of.pop().unwrap_or_default(), taken, dead)
}
