//! fg_harness: drives the real fn_graph under a controlled executor and writes
//! ndjson traces for the TLA+ trace specifications. It decides nothing.

mod explore;
mod families;
mod graph;
mod phases;
mod runs;
mod scenario;
mod threads;
mod world;

use std::{
    collections::HashMap,
    fs::File,
    io::{BufRead, BufReader, BufWriter, Write},
};

use crate::runs::ExploreOpts;
use crate::scenario::Scenario;

/// A `build()` was given up by the watchdog: a runaway thread is left behind, so the harness writes what it has and stops.
pub static ABANDON: std::sync::atomic::AtomicBool = std::sync::atomic::AtomicBool::new(false);

pub struct Out {
    traces: BufWriter<File>,
    scns: Option<BufWriter<File>>,
    seen: std::collections::HashSet<u64>,
    pub emitted: u64,
    pub dups: u64,
    pub events: u64,
    pub dedup: bool,
}

fn hash_trace(t: &[serde_json::Value]) -> u64 {
    // FNV-1a over the serialised events, skipping the scenario id of the reset line.
    let mut h: u64 = 0xcbf29ce484222325;
    let mut eat = |s: &str| {
        for b in s.as_bytes() {
            h ^= *b as u64;
            h = h.wrapping_mul(0x100000001b3);
        }
    };
    for (i, v) in t.iter().enumerate() {
        if i == 0 {
            let mut v = v.clone();
            v["scn"] = serde_json::Value::Null;
            eat(&v.to_string());
        } else {
            eat(&v.to_string());
        }
    }
    h
}

impl Out {
    pub fn emit(&mut self, scn: &Scenario, trace: &[serde_json::Value]) {
        if self.dedup && !self.seen.insert(hash_trace(trace)) {
            self.dups += 1;
            return;
        }
        // fn_graph built with its default features (harness without `int`): scenario ids carry the mark "P~",
        // so that a violation is replayed on the same build
        #[cfg(not(feature = "int"))]
        let (scn, trace) = {
            let mut scn = scn.clone();
            let mut trace = trace.to_vec();
            if !scn.id.starts_with("P~") {
                scn.id = format!("P~{}", scn.id);
            }
            if let Some(first) = trace.first_mut() {
                first["scn"] = serde_json::Value::String(scn.id.clone());
            }
            (scn, trace)
        };
        #[cfg(not(feature = "int"))]
        let (scn, trace) = (&scn, &trace[..]);
        for v in trace {
            writeln!(self.traces, "{}", v).unwrap();
        }
        self.events += trace.len() as u64;
        if let Some(s) = self.scns.as_mut() {
            writeln!(s, "{}", serde_json::to_string(scn).unwrap()).unwrap();
        }
        self.emitted += 1;
        if ABANDON.load(std::sync::atomic::Ordering::SeqCst) {
            self.traces.flush().unwrap();
            if let Some(s) = self.scns.as_mut() {
                s.flush().unwrap();
            }
            eprintln!("{{\"emitted\":{},\"dups\":{},\"events\":{}}}", self.emitted, self.dups, self.events);
            std::process::exit(0);
        }
    }
}

fn main() {
    let args: Vec<String> = std::env::args().collect();
    if args.len() < 2 {
        eprintln!("usage: fg_harness replay|gen --key value ...");
        std::process::exit(2);
    }
    let mode = args[1].as_str();
    let mut kv: HashMap<String, String> = HashMap::new();
    let mut i = 2;
    while i + 1 < args.len() + 1 && i < args.len() {
        let k = args[i].trim_start_matches("--").to_string();
        let v = args.get(i + 1).cloned().unwrap_or_default();
        kv.insert(k, v);
        i += 2;
    }
    let get = |k: &str, d: &str| kv.get(k).cloned().unwrap_or_else(|| d.to_string());
    let out_traces = get("out-traces", "/dev/stdout");
    let out_scn = kv.get("out-scn").cloned();
    let hooks = get("hooks", "0") == "1";
    let mut out = Out {
        traces: BufWriter::new(File::create(&out_traces).expect("create traces")),
        scns: out_scn.map(|p| BufWriter::new(File::create(p).expect("create scn"))),
        seen: Default::default(),
        emitted: 0,
        dups: 0,
        events: 0,
        dedup: get("dedup", "1") == "1",
    };
    // Panics of the code under test are data (caught and logged); keep stderr quiet.
    std::panic::set_hook(Box::new(|info| {
        let s = info.to_string();
        if s.contains("harness:") || std::env::var_os("FG_PANICS").is_some() {
            eprintln!("{s}");
        }
    }));
    match mode {
        "replay" => {
            let inp = get("in", "/dev/stdin");
            let rd = BufReader::new(File::open(&inp).expect("open scenarios"));
            let x = ExploreOpts::default();
            for line in rd.lines() {
                let line = line.unwrap();
                if line.trim().is_empty() {
                    continue;
                }
                let scn: Scenario = match serde_json::from_str(&line) {
                    Ok(s) => s,
                    Err(e) => {
                        eprintln!("harness: bad scenario: {e}: {line}");
                        std::process::exit(2);
                    }
                };
                let r = phases::run_scenario(&scn, hooks, &x);
                out.emit(&scn, &r.trace);
            }
        }
        "gen" => {
            let p = families::GenParams {
                family: get("family", ""),
                tier: get("tier", "quick"),
                seed: get("seed", "1").parse().unwrap_or(1),
                shard: get("shard", "0").parse().unwrap_or(0),
                shards: get("shards", "1").parse().unwrap_or(1),
                count: get("count", "0").parse().unwrap_or(0),
                sample: get("sample", "1").parse().unwrap_or(1),
                max_n: get("max-n", "0").parse().unwrap_or(0),
                focus: get("focus", ""),
                cfg_index: get("cfg-index", "-1").parse().unwrap_or(-1),
                hooks,
            };
            families::generate(&p, &mut out);
        }
        "list-cfgs" => {
            // option sets of the hook-level conformance families, one JSON object per line
            for c in families::call_cfgs(true) {
                println!("{}", serde_json::json!({"kind":"run","cfg":c}));
            }
            for c in families::stream_cfgs() {
                println!("{}", serde_json::json!({"kind":"stream","cfg":c}));
            }
        }
        _ => {
            eprintln!("harness: unknown mode {mode}");
            std::process::exit(2);
        }
    }
    out.traces.flush().unwrap();
    if let Some(s) = out.scns.as_mut() {
        s.flush().unwrap();
    }
    eprintln!(
        "{{\"emitted\":{},\"dups\":{},\"events\":{}}}",
        out.emitted, out.dups, out.events
    );
}
