//! Scenario runner: builder phase, then the post-build phases.

use std::panic::{catch_unwind, AssertUnwindSafe};

use fn_graph::{FnGraph, GraphInfo};
use serde_json::{json, Value};

use crate::graph::{build_logged, build_quiet, edges_json, kind_str, panic_msg, ranks_json, Node};
use crate::runs::{Exec, ExploreOpts};
use crate::scenario::{BCall, Phase, Scenario, Step};
use crate::world::{World, W};

pub struct RunResult {
    pub trace: Vec<Value>,
    /// Driver choices enabled after the last step of the last `Runs` phase.
    pub enabled: Vec<Step>,
}

pub fn run_scenario(scn: &Scenario, hooks: bool, x: &ExploreOpts) -> RunResult {
    run_scenario_with(scn, hooks, x, None).0
}

/// Picks the next driver step among the enabled ones (random walks without re-execution).
pub type Chooser<'a> = &'a mut dyn FnMut(&[Step]) -> Option<Step>;

/// As `run_scenario`; with a chooser, the last `Runs` phase continues after its recorded steps with the steps
/// the chooser picks, one at a time, until nothing is enabled or the chooser stops. Returns the steps taken.
pub fn run_scenario_with(scn: &Scenario, hooks: bool, x: &ExploreOpts, mut online: Option<Chooser>) -> (RunResult, Vec<Step>) {
    let mut taken: Vec<Step> = Vec::new();
    // A signal sent in the middle of a poll (by a synchronous function, or by a completing function) can only be judged
    // with fn_graph's own events in the trace (which functions the ready stream had handed out before it): such
    // scenarios are always recorded with hooks on. (Threaded scenarios cannot be: the hook sink is thread-local.)
    let in_poll_signal = scn.phases.iter().any(|ph| match ph {
        Phase::Runs { runs, steps } => {
            runs.iter().any(|c| !c.sync_sig.is_empty()) || steps.iter().any(|st| matches!(st, Step::Open { signal: true, .. }))
        }
        _ => false,
    });
    let hooks = hooks || (in_poll_signal && !scn.threads);
    let w = World::new(hooks);
    #[cfg(feature = "hooks")]
    {
        if hooks {
            fn_graph::verif_hooks::start();
        } else {
            fn_graph::verif_hooks::stop();
        }
    }
    let multi = scn.phases.iter().any(|ph| matches!(ph, Phase::Runs { runs, .. } if runs.len() > 1));
    w.borrow_mut().ev(json!({"ev":"reset","scn":scn.id,"n":scn.n,
        "reads":pad(&scn.reads, scn.n),"writes":pad(&scn.writes, scn.n),"multi":multi,"tokio":scn.tokio,"threads":scn.threads,"xdrop":scn.xdrop}));
    let mut enabled = Vec::new();
    if let Some(g) = build_logged(scn, &w) {
        let gp: *mut FnGraph<Node> = Box::into_raw(Box::new(g));
        for ph in &scn.phases {
            match ph {
                Phase::Eq => phase_eq(scn, unsafe { &*gp }, &w),
                Phase::Seq { fail_at } => phase_seq(scn, unsafe { &mut *gp }, *fail_at, &w),
                Phase::GraphInfo => phase_graph_info(unsafe { &*gp }, &w),
                Phase::Runs { runs, steps } if scn.threads && runs.len() >= 2 => {
                    let mut log = std::mem::take(&mut w.borrow_mut().log);
                    let (en, tk, dead) = match online.as_mut() {
                        Some(choose) => crate::threads::run_threaded(gp, runs, steps, x, Some(&mut **choose), &mut log),
                        None => crate::threads::run_threaded(gp, runs, steps, x, None, &mut log),
                    };
                    w.borrow_mut().log = log;
                    enabled = en;
                    taken = tk;
                    if dead {
                        return (
                            RunResult {
                                trace: std::mem::take(&mut w.borrow_mut().log),
                                enabled: Vec::new(),
                            },
                            taken,
                        );
                    }
                }
                Phase::Runs { runs, steps } => {
                    let mut ex = Exec::new(w.clone(), gp, runs);
                    ex.tokio = scn.tokio;
                    ex.burn = scn.burn.clone();
                    ex.xdrop = scn.xdrop;
                    ex.run_steps(steps);
                    taken = steps.clone();
                    enabled = ex.enabled(x);
                    if let Some(choose) = online.as_mut() {
                        while !enabled.is_empty() {
                            match choose(&enabled) {
                                Some(st) => {
                                    ex.run_steps(std::slice::from_ref(&st));
                                    taken.push(st);
                                    enabled = ex.enabled(x);
                                }
                                None => break,
                            }
                        }
                    }
                    let mark = w.borrow().log.len();
                    ex.finish();
                    // `cancel` events caused by tearing the scenario down are not observations.
                    let mut world = w.borrow_mut();
                    let tail: Vec<Value> = world.log.split_off(mark);
                    for v in tail {
                        if v["ev"] != "cancel" {
                            world.log.push(v);
                        }
                    }
                    if ex.dead {
                        // Graph state after a panic is not trusted; leak it.
                        drop(world);
                        std::mem::forget(ex);
                        return (
                            RunResult {
                                trace: std::mem::take(&mut w.borrow_mut().log),
                                enabled: Vec::new(),
                            },
                            taken,
                        );
                    }
                }
            }
        }
        unsafe {
            drop(Box::from_raw(gp));
        }
    }
    w.borrow_mut().drain_hooks();
    let trace = std::mem::take(&mut w.borrow_mut().log);
    (RunResult { trace, enabled }, taken)
}

fn pad(v: &[Vec<usize>], n: usize) -> Vec<Vec<usize>> {
    (0..n).map(|i| v.get(i).cloned().unwrap_or_default()).collect()
}

/// `==` on the same call sequence and on every one-edit variant of it.
fn phase_eq(scn: &Scenario, g: &FnGraph<Node>, w: &W) {
    let log = |variant: Value, other: &Scenario| {
        let res = catch_unwind(AssertUnwindSafe(|| build_quiet(other)));
        match res {
            Ok(Some(g2)) => {
                let eq = *g == g2;
                let eq_rev = g2 == *g;
                let ranks_eq = g.ranks() == g2.ranks();
                w.borrow_mut().ev(json!({"ev":"eq","variant":variant,"res":eq,"res_rev":eq_rev,
                    "ranks_eq":ranks_eq,"calls":serde_json::to_value(&other.calls).unwrap(),
                    "n":other.n,"tags_differ":tags_of(other) != tags_of(scn),
                    "edges2":edges_json(&g2),"ranks2":ranks_json(&g2)}));
            }
            _ => {
                w.borrow_mut()
                    .ev(json!({"ev":"eq","variant":variant,"res":false,"res_rev":false,"ranks_eq":false,
                        "calls":[],"n":other.n,"tags_differ":false,"edges2":[],"ranks2":[],"panic":true}));
            }
        }
    };
    log(json!("same"), scn);
    // one function changed
    for i in 0..scn.n {
        let mut o = scn.clone();
        let mut tags = tags_of(scn);
        tags[i] += 1000;
        o.tags = tags;
        log(json!(format!("tag-{}", i + 1)), &o);
    }
    // one edge call changed: kind, or one endpoint
    // (variants that redirect an edge may name any function: they are built with all functions added up front)
    let upfront = {
        let mut o = scn.clone();
        o.calls.retain(|c| !matches!(c, BCall::Fn));
        o
    };
    let scn = &upfront;
    for (ci, c) in scn.calls.iter().enumerate() {
        if let BCall::Edge { kind, a, b } = c {
            let mut o = scn.clone();
            o.calls[ci] = BCall::Edge {
                kind: if kind == "logic" { "contains".into() } else { "logic".into() },
                a: *a,
                b: *b,
            };
            log(json!(format!("kind-{}", ci + 1)), &o);
            for t in 1..=scn.n {
                if t != *b {
                    let mut o = scn.clone();
                    o.calls[ci] = BCall::Edge { kind: kind.clone(), a: *a, b: t };
                    log(json!(format!("to-{}-{}", ci + 1, t)), &o);
                }
                if t != *a {
                    let mut o = scn.clone();
                    o.calls[ci] = BCall::Edge { kind: kind.clone(), a: t, b: *b };
                    log(json!(format!("from-{}-{}", ci + 1, t)), &o);
                }
            }
        }
    }
    // clone equals original
    let c = g.clone();
    w.borrow_mut().ev(json!({"ev":"eq","variant":"clone","res":*g == c,"res_rev":c == *g,
        "ranks_eq":g.ranks()==c.ranks(),"calls":serde_json::to_value(&scn.calls).unwrap(),"n":scn.n,
        "tags_differ":false,"edges2":edges_json(&c),"ranks2":ranks_json(&c)}));
}

fn tags_of(scn: &Scenario) -> Vec<u32> {
    (0..scn.n)
        .map(|i| scn.tags.get(i).copied().unwrap_or(i as u32 + 1))
        .collect()
}

fn phase_seq(scn: &Scenario, g: &mut FnGraph<Node>, fail_at: usize, w: &W) {
    let ev = |api: &str, order: Vec<usize>, res: &str, w: &W| {
        w.borrow_mut()
            .ev(json!({"ev":"seq","api":api,"order":order,"res":res,"fail_at":fail_at}));
    };
    macro_rules! guarded {
        ($api:expr, $body:expr) => {
            match catch_unwind(AssertUnwindSafe(|| $body)) {
                Ok((order, res)) => ev($api, order, res, w),
                Err(p) => w.borrow_mut().ev(json!({"ev":"panic","run":0,"msg":panic_msg(p),"api":$api})),
            }
        };
    }
    guarded!("iter", (g.iter().map(|n| n.id).collect::<Vec<_>>(), "ok"));
    guarded!("iter_rev", (g.iter_rev().map(|n| n.id).collect::<Vec<_>>(), "ok"));
    guarded!("toposort", {
        let mut topo = g.toposort();
        let mut v = Vec::new();
        // `toposort()` is documented to walk the graph structure; walk it over the public graph.
        while let Some(i) = topo.next(&g.graph) {
            v.push(i.index() + 1);
        }
        (v, "ok")
    });
    guarded!("map", (g.map(|n| { n.touched += 1; n.id }).collect::<Vec<_>>(), "ok"));
    guarded!("fold", (g.fold(Vec::new(), |mut v, n| { v.push(n.id); v }), "ok"));
    guarded!("for_each", {
        let mut v = Vec::new();
        g.for_each(|n| v.push(n.id));
        (v, "ok")
    });
    guarded!("try_fold", {
        let mut seen = Vec::new();
        let r = g.try_fold(0usize, |k, n| {
            seen.push(n.id);
            if k + 1 == fail_at { Err(n.id) } else { Ok(k + 1) }
        });
        (seen, if r.is_ok() { "ok" } else { "err" })
    });
    guarded!("try_for_each", {
        let mut seen = Vec::new();
        let r = g.try_for_each(|n| {
            seen.push(n.id);
            if seen.len() == fail_at { Err(n.id) } else { Ok(()) }
        });
        (seen, if r.is_ok() { "ok" } else { "err" })
    });
    // walks over two DIFFERENT graph values in progress at the same time (the sequential APIs take `&mut self`, which
    // only rules out a second walk over the same value): nested in the closure, and two zipped lazy `map` iterators
    if let Some(mut g2) = build_quiet(scn) {
        let n = g.node_count();
        guarded!("for_each_nested", {
            let mut v = Vec::new();
            let mut inner_ok = true;
            g.for_each(|a| {
                v.push(a.id);
                let mut inner = Vec::new();
                g2.for_each(|b| inner.push(b.id));
                inner_ok &= inner.len() == n;
            });
            (v, if inner_ok { "ok" } else { "inner_short" })
        });
        guarded!("fold_nested", {
            let v = g.fold(Vec::new(), |mut v, a| {
                v.push(a.id);
                let _ = g2.fold(0usize, |k, _| k + 1);
                v
            });
            (v, "ok")
        });
        guarded!("try_fold_nested", {
            let mut seen = Vec::new();
            let r = g.try_fold(0usize, |k, a| {
                seen.push(a.id);
                let _: Result<usize, ()> = g2.try_fold(0usize, |j, _| Ok(j + 1));
                if k + 1 == fail_at { Err(a.id) } else { Ok(k + 1) }
            });
            (seen, if r.is_ok() { "ok" } else { "err" })
        });
        guarded!("try_for_each_nested", {
            let mut seen = Vec::new();
            let r = g.try_for_each(|a| {
                seen.push(a.id);
                let _: Result<(), ()> = g2.try_for_each(|_| Ok(()));
                if seen.len() == fail_at { Err(a.id) } else { Ok(()) }
            });
            (seen, if r.is_ok() { "ok" } else { "err" })
        });
        guarded!("map_zip_left", {
            let pairs: Vec<(usize, usize)> = g.map(|a| a.id).zip(g2.map(|b| b.id)).collect();
            let left: Vec<usize> = pairs.iter().map(|p| p.0).collect();
            let right: Vec<usize> = pairs.iter().map(|p| p.1).collect();
            ev("map_zip_right", right, "ok", w);
            (left, "ok")
        });
        guarded!("inner_after_nested", {
            let mut v = Vec::new();
            g2.for_each(|b| v.push(b.id));
            (v, "ok")
        });
    }
    guarded!("iter_insertion", (g.iter_insertion().map(|n| n.id).collect::<Vec<_>>(), "ok"));
    guarded!("iter_insertion_rev", (g.iter_insertion().rev().map(|n| n.id).collect::<Vec<_>>(), "ok"));
    guarded!("iter_insertion_mut", (g.iter_insertion_mut().map(|n| { n.touched += 1; n.id }).collect::<Vec<_>>(), "ok"));
    guarded!("iter_insertion_with_indices", {
        let v = g.iter_insertion_with_indices()
            .map(|(i, n)| if i.index() + 1 == n.id { n.id } else { 0 })
            .collect::<Vec<_>>();
        (v, "ok")
    });
}

fn gi_edges(gi: &GraphInfo<u32>) -> Value {
    Value::Array(
        gi.raw_edges()
            .iter()
            .map(|e| json!([e.source().index() + 1, e.target().index() + 1, kind_str(&e.weight)]))
            .collect(),
    )
}

fn gi_nodes(gi: &GraphInfo<u32>) -> Vec<u32> {
    gi.iter_insertion_with_indices().map(|(_, t)| *t).collect()
}

#[derive(serde::Serialize, serde::Deserialize, PartialEq, Clone, Debug)]
enum NodeKind {
    Unit,
    Newtype(u32),
    Struct { id: u32, name: String },
}

/// GraphInfo with node infos of type `T`: serde_json (and YAML) round trip, equality both ways, same edges.
fn rt_kind<T>(g: &FnGraph<Node>, w: &W, kind: &str, f: impl Fn(&Node) -> T)
where
    T: serde::Serialize + serde::de::DeserializeOwned + PartialEq + Clone + std::fmt::Debug,
{
    let gi = GraphInfo::from_graph(g, |n| f(n));
    let edges = |x: &GraphInfo<T>| -> Vec<(usize, usize, &'static str)> {
        x.raw_edges().iter().map(|e| (e.source().index() + 1, e.target().index() + 1, kind_str(&e.weight))).collect()
    };
    let mut report = |codec: &str, back: Result<GraphInfo<T>, String>| match back {
        Ok(gi2) => {
            let same_nodes = gi.iter_insertion_with_indices().map(|(_, t)| t.clone()).collect::<Vec<_>>()
                == gi2.iter_insertion_with_indices().map(|(_, t)| t.clone()).collect::<Vec<_>>();
            w.borrow_mut().ev(json!({"ev":"graph_info_rt2","kind":kind,"codec":codec,"ok":true,
                "equal":gi == gi2 && gi2 == gi && same_nodes && edges(&gi) == edges(&gi2),"err":""}));
        }
        Err(e) => {
            w.borrow_mut().ev(json!({"ev":"graph_info_rt2","kind":kind,"codec":codec,"ok":false,"equal":false,"err":e}));
        }
    };
    match serde_json::to_string(&gi) {
        Ok(s) => report("json", serde_json::from_str::<GraphInfo<T>>(&s).map_err(|e| e.to_string())),
        Err(e) => report("json", Err(format!("serialise: {e}"))),
    }
    match serde_yaml_ng::to_string(&gi) {
        Ok(s) => report("yaml", serde_yaml_ng::from_str::<GraphInfo<T>>(&s).map_err(|e| e.to_string())),
        Err(e) => report("yaml", Err(format!("serialise: {e}"))),
    }
}

fn phase_graph_info(g: &FnGraph<Node>, w: &W) {
    let r = catch_unwind(AssertUnwindSafe(|| {
        // The caller's mapping: tag * 7 + id, so that order and mapping are both visible.
        let gi = GraphInfo::from_graph(g, |n| n.tag * 7 + n.id as u32);
        w.borrow_mut().ev(json!({"ev":"graph_info","nodes":gi_nodes(&gi),"edges":gi_edges(&gi),
            "want_nodes": g.iter_insertion().map(|n| n.tag * 7 + n.id as u32).collect::<Vec<_>>()}));
        let s = serde_json::to_string(&gi).expect("serialise");
        match serde_json::from_str::<GraphInfo<u32>>(&s) {
            Ok(gi2) => {
                let s2 = serde_json::to_string(&gi2).expect("serialise");
                w.borrow_mut().ev(json!({"ev":"graph_info_rt","ok":true,"equal":gi == gi2,"equal_rev":gi2 == gi,
                    "nodes":gi_nodes(&gi2),"edges":gi_edges(&gi2),"bytes_equal":s == s2}));
            }
            Err(e) => {
                w.borrow_mut().ev(json!({"ev":"graph_info_rt","ok":false,"equal":false,"equal_rev":false,
                    "nodes":[],"edges":[],"bytes_equal":false,"err":e.to_string()}));
            }
        }
        // node infos are unique (tag*7+id with distinct ids < 7 is not guaranteed unique), so map back through position
        let pos = |v: &u32| gi_nodes(&gi).iter().position(|x| x == v).map(|p| p + 1).unwrap_or(0);
        let unique = {
            let mut v = gi_nodes(&gi);
            v.sort();
            v.dedup();
            v.len() == gi_nodes(&gi).len()
        };
        if unique {
            w.borrow_mut().ev(json!({"ev":"gi_iter","seq":gi.iter().map(pos).collect::<Vec<_>>()}));
            w.borrow_mut().ev(json!({"ev":"gi_iter_rev","seq":gi.iter_rev().map(pos).collect::<Vec<_>>()}));
        }
        // node infos of other shapes through the same round trip: the (de)serialisation of GraphInfo must not depend on
        // what the caller's node info is
        rt_kind(g, w, "u128", |n| n.tag as u128 * 7 + n.id as u128);
        rt_kind(g, w, "i128", |n| -(n.id as i128));
        rt_kind(g, w, "u64_big", |n| u64::MAX - n.id as u64);
        rt_kind(g, w, "enum", |n| match n.id % 3 {
            0 => NodeKind::Unit,
            1 => NodeKind::Newtype(n.tag),
            _ => NodeKind::Struct { id: n.id as u32, name: format!("f{}", n.id) },
        });
        rt_kind(g, w, "int_map", |n| {
            let mut m = std::collections::BTreeMap::new();
            m.insert(n.id as u32, n.tag);
            m.insert(1000 + n.id as u32, 0);
            m
        });
        rt_kind(g, w, "option_tuple", |n| (if n.id % 2 == 0 { Some(n.tag) } else { None }, n.id as i64, n.id % 2 == 0));
        rt_kind(g, w, "string", |n| format!("fn {} \"{}\"", n.id, n.tag));
        // a differing GraphInfo compares unequal
        let gi3 = GraphInfo::from_graph(g, |n| n.tag * 7 + n.id as u32 + 1);
        w.borrow_mut().ev(json!({"ev":"gi_neq","n":g.node_count(),"res": gi == gi3}));
    }));
    if let Err(p) = r {
        w.borrow_mut().ev(json!({"ev":"panic","run":0,"msg":panic_msg(p),"api":"graph_info"}));
    }
}
