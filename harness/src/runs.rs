//! Controlled executor for the streaming APIs: creates the call futures /
//! streams, applies driver steps, polls only when woken, logs observations.

use std::{
    collections::BTreeMap,
    future::Future,
    ops::ControlFlow,
    panic::{catch_unwind, AssertUnwindSafe},
    pin::Pin,
    sync::Arc,
    task::{Context, Poll, Waker},
};

use fn_graph::{FnGraph, FnRef, StreamOpts, StreamOutcome, StreamOutcomeState};
use futures::{stream::Stream, FutureExt, StreamExt};
use interruptible::InterruptSignal;
#[cfg(feature = "int")]
use interruptible::{InterruptibilityState, PollOutcome};
use serde_json::{json, Value};
use tokio::sync::mpsc;

use crate::graph::{panic_msg, Node};
use crate::scenario::{RunCfg, Step};
use crate::world::{gate_open, gate_start, FlagWaker, W};

pub struct OutcomeJ {
    state: &'static str,
    processed: Vec<usize>,
    not_processed: Vec<usize>,
    value: Vec<usize>,
}

fn oj<T>(o: StreamOutcome<T>, value: impl FnOnce(T) -> Vec<usize>) -> OutcomeJ {
    OutcomeJ {
        state: match o.state {
            StreamOutcomeState::NotStarted => "not_started",
            StreamOutcomeState::Interrupted => "interrupted",
            StreamOutcomeState::Finished => "finished",
        },
        processed: o.fn_ids_processed.iter().map(|i| i.index() + 1).collect(),
        not_processed: o.fn_ids_not_processed.iter().map(|i| i.index() + 1).collect(),
        value: value(o.value),
    }
}

pub enum RunRet {
    Outcome(OutcomeJ),
    Ok(OutcomeJ),
    Err(OutcomeJ, Vec<usize>),
    FoldErr(usize),
    Continue(OutcomeJ),
    Break(OutcomeJ, Vec<usize>),
}

impl RunRet {
    fn to_event(&self, run: usize) -> Value {
        let (kind, o, errors, err): (&str, Option<&OutcomeJ>, Vec<usize>, usize) = match self {
            RunRet::Outcome(o) => ("outcome", Some(o), vec![], 0),
            RunRet::Ok(o) => ("ok", Some(o), vec![], 0),
            RunRet::Err(o, e) => ("err", Some(o), e.clone(), 0),
            RunRet::FoldErr(e) => ("fold_err", None, vec![], *e),
            RunRet::Continue(o) => ("continue", Some(o), vec![], 0),
            RunRet::Break(o, e) => ("break", Some(o), e.clone(), 0),
        };
        let empty = OutcomeJ {
            state: "",
            processed: vec![],
            not_processed: vec![],
            value: vec![],
        };
        let o = o.unwrap_or(&empty);
        json!({"ev":"return","run":run,"kind":kind,"state":o.state,"processed":o.processed,
            "not_processed":o.not_processed,"errors":errors,"err":err,"value":o.value})
    }
}

fn vals(v: Vec<usize>) -> Vec<usize> {
    v
}
fn unit(_: ()) -> Vec<usize> {
    Vec::new()
}
fn map_fold(r: Result<StreamOutcome<Vec<usize>>, usize>) -> RunRet {
    match r {
        Ok(o) => RunRet::Ok(oj(o, vals)),
        Err(e) => RunRet::FoldErr(e),
    }
}
fn map_try(r: Result<StreamOutcome<()>, (StreamOutcome<()>, Vec<usize>)>) -> RunRet {
    match r {
        Ok(o) => RunRet::Ok(oj(o, unit)),
        Err((o, e)) => RunRet::Err(oj(o, unit), e),
    }
}
fn map_ctl(r: ControlFlow<(StreamOutcome<()>, Vec<usize>), StreamOutcome<()>>) -> RunRet {
    match r {
        ControlFlow::Continue(o) => RunRet::Continue(oj(o, unit)),
        ControlFlow::Break((o, e)) => RunRet::Break(oj(o, unit), e),
    }
}

type CallFut = Pin<Box<dyn Future<Output = RunRet>>>;

pub enum SItem {
    Item(FnRef<'static, Node>),
    Interrupted(Option<FnRef<'static, Node>>),
}
type SStream = Pin<Box<dyn Stream<Item = SItem>>>;

/// fn_graph built without `interruptible`: the only option is the order.
#[cfg(not(feature = "int"))]
fn mk_opts(cfg: &RunCfg, _rx: Option<mpsc::Receiver<InterruptSignal>>, _w: &W, _run: usize) -> StreamOpts<'static, 'static> {
    assert!(cfg.strategy == "none", "harness: interruptibility needs the `int` feature");
    let mut o = StreamOpts::new();
    if cfg.order == "rev" {
        o = o.rev();
    }
    o
}

#[cfg(feature = "int")]
fn mk_opts(cfg: &RunCfg, rx: Option<mpsc::Receiver<InterruptSignal>>, w: &W, run: usize) -> StreamOpts<'static, 'static> {
    let mut o = StreamOpts::new();
    // the builder methods are called in either order (`rev()` first or last), decided by the option set
    let rev_last = (cfg.k + cfg.limit.unsigned_abs() + cfg.include as u64) % 2 == 1;
    if cfg.order == "rev" && !rev_last {
        o = o.rev();
    }
    let state = match cfg.strategy.as_str() {
        "none" => None,
        "non" => Some(InterruptibilityState::new_non_interruptible()),
        "ignore" => Some(InterruptibilityState::new_ignore_interruptions(rx.expect("rx").into())),
        "finish" => Some(InterruptibilityState::new_finish_current(rx.expect("rx").into())),
        "poll_n" => Some(InterruptibilityState::new_poll_next_n(rx.expect("rx").into(), cfg.k)),
        s => panic!("harness: unknown strategy {s}"),
    };
    if let Some(mut state) = state {
        // the two callbacks of the interruptibility state are observed as events
        let (w1, w2) = (w.clone(), w.clone());
        state.set_fn_interrupt_activate(Some(move || {
            if let Ok(mut world) = w1.try_borrow_mut() {
                world.ev(json!({"ev":"int_activate","run":run}));
            }
        }));
        state.set_fn_interrupt_poll_item(Some(move || {
            if let Ok(mut world) = w2.try_borrow_mut() {
                world.ev(json!({"ev":"int_poll_item","run":run}));
            }
        }));
        o = o.interruptibility_state(state);
    }
    if !cfg.include {
        o = o.interrupted_next_item_include(false);
    }
    if cfg.order == "rev" && rev_last {
        o = o.rev();
    }
    o
}

fn limit_of(cfg: &RunCfg) -> Option<usize> {
    if cfg.limit < 0 {
        None
    } else {
        Some(cfg.limit as usize)
    }
}

/// Creates the call future for a non-stream API. `g` points to the graph owned
/// by the scenario runner, which guarantees it outlives the future and that a
/// `mut` run never overlaps another run.
fn mk_call(
    cfg: &RunCfg,
    run: usize,
    g: *mut FnGraph<Node>,
    w: &W,
    rx: Option<mpsc::Receiver<InterruptSignal>>,
    opts_given: Option<StreamOpts<'static, 'static>>,
) -> CallFut {
    let opts = match opts_given {
        Some(o) => o,
        None => mk_opts(cfg, rx, w, run),
    };
    let limit = limit_of(cfg);
    let w = w.clone();
    macro_rules! shared {
        () => {
            unsafe { &*g }
        };
    }
    macro_rules! excl {
        () => {
            unsafe { &mut *g }
        };
    }
    match (cfg.api.as_str(), cfg.mutv, cfg.control, cfg.with) {
        // ---- fold_async
        ("fold", false, _, with) => {
            let g: &'static FnGraph<Node> = shared!();
            macro_rules! body {
                () => {
                    move |mut seed: Vec<usize>, f| {
                        let id = f.id;
                        let fut = gate_start(&w, run, id);
                        async move {
                            fut.await;
                            seed.push(id);
                            seed
                        }
                        .boxed_local()
                    }
                };
            }
            if with {
                Box::pin(async move { RunRet::Outcome(oj(g.fold_async_with(Vec::new(), opts, body!()).await, vals)) })
            } else {
                Box::pin(async move { RunRet::Outcome(oj(g.fold_async(Vec::new(), body!()).await, vals)) })
            }
        }
        ("fold", true, _, with) => {
            let g: &'static mut FnGraph<Node> = excl!();
            macro_rules! body {
                () => {
                    move |mut seed: Vec<usize>, mut f| {
                        let id = f.id;
                        f.touched += 1;
                        let fut = gate_start(&w, run, id);
                        async move {
                            fut.await;
                            seed.push(id);
                            seed
                        }
                        .boxed_local()
                    }
                };
            }
            if with {
                Box::pin(async move { RunRet::Outcome(oj(g.fold_async_mut_with(Vec::new(), opts, body!()).await, vals)) })
            } else {
                Box::pin(async move { RunRet::Outcome(oj(g.fold_async_mut(Vec::new(), body!()).await, vals)) })
            }
        }
        // ---- try_fold_async
        ("try_fold", false, _, with) => {
            let g: &'static FnGraph<Node> = shared!();
            macro_rules! body {
                () => {
                    move |mut seed: Vec<usize>, f| {
                        let id = f.id;
                        let fut = gate_start(&w, run, id);
                        async move {
                            if fut.await {
                                seed.push(id);
                                Ok(seed)
                            } else {
                                Err(id)
                            }
                        }
                        .boxed_local()
                    }
                };
            }
            if with {
                Box::pin(async move { map_fold(g.try_fold_async_with(Vec::new(), opts, body!()).await) })
            } else {
                Box::pin(async move { map_fold(g.try_fold_async(Vec::new(), body!()).await) })
            }
        }
        ("try_fold", true, _, with) => {
            let g: &'static mut FnGraph<Node> = excl!();
            macro_rules! body {
                () => {
                    move |mut seed: Vec<usize>, mut f| {
                        let id = f.id;
                        f.touched += 1;
                        let fut = gate_start(&w, run, id);
                        async move {
                            if fut.await {
                                seed.push(id);
                                Ok(seed)
                            } else {
                                Err(id)
                            }
                        }
                        .boxed_local()
                    }
                };
            }
            if with {
                Box::pin(async move { map_fold(g.try_fold_async_mut_with(Vec::new(), opts, body!()).await) })
            } else {
                Box::pin(async move { map_fold(g.try_fold_async_mut(Vec::new(), body!()).await) })
            }
        }
        // ---- for_each_concurrent
        ("for_each", false, _, with) => {
            let g: &'static FnGraph<Node> = shared!();
            let f = move |node: &'static Node| gate_start(&w, run, node.id).map(|_| ());
            if with {
                Box::pin(async move { RunRet::Outcome(oj(g.for_each_concurrent_with(limit, opts, f).await, unit)) })
            } else {
                Box::pin(async move { RunRet::Outcome(oj(g.for_each_concurrent(limit, f).await, unit)) })
            }
        }
        ("for_each", true, _, with) => {
            let g: &'static mut FnGraph<Node> = excl!();
            let f = move |node: &mut Node| {
                node.touched += 1;
                gate_start(&w, run, node.id).map(|_| ())
            };
            if with {
                Box::pin(async move { RunRet::Outcome(oj(g.for_each_concurrent_mut_with(limit, opts, f).await, unit)) })
            } else {
                Box::pin(async move { RunRet::Outcome(oj(g.for_each_concurrent_mut(limit, f).await, unit)) })
            }
        }
        // ---- try_for_each_concurrent
        ("try_for_each", false, false, with) => {
            let g: &'static FnGraph<Node> = shared!();
            let f = move |node: &'static Node| {
                let id = node.id;
                gate_start(&w, run, id).map(move |ok| if ok { Ok(()) } else { Err(id) })
            };
            let map = map_try;
            if with {
                Box::pin(async move { map(g.try_for_each_concurrent_with(limit, opts, f).await) })
            } else {
                Box::pin(async move { map(g.try_for_each_concurrent(limit, f).await) })
            }
        }
        ("try_for_each", true, false, with) => {
            let g: &'static mut FnGraph<Node> = excl!();
            let f = move |node: &mut Node| {
                let id = node.id;
                node.touched += 1;
                gate_start(&w, run, id).map(move |ok| if ok { Ok(()) } else { Err(id) })
            };
            let map = map_try;
            if with {
                Box::pin(async move { map(g.try_for_each_concurrent_mut_with(limit, opts, f).await) })
            } else {
                Box::pin(async move { map(g.try_for_each_concurrent_mut(limit, f).await) })
            }
        }
        ("try_for_each", false, true, with) => {
            let g: &'static FnGraph<Node> = shared!();
            let f = move |node: &'static Node| {
                let id = node.id;
                gate_start(&w, run, id).map(move |ok| {
                    if ok {
                        ControlFlow::Continue(())
                    } else {
                        ControlFlow::Break(id)
                    }
                })
            };
            let map = map_ctl;
            if with {
                Box::pin(async move { map(g.try_for_each_concurrent_control_with(limit, opts, f).await) })
            } else {
                Box::pin(async move { map(g.try_for_each_concurrent_control(limit, f).await) })
            }
        }
        ("try_for_each", true, true, with) => {
            let g: &'static mut FnGraph<Node> = excl!();
            let f = move |node: &mut Node| {
                let id = node.id;
                node.touched += 1;
                gate_start(&w, run, id).map(move |ok| {
                    if ok {
                        ControlFlow::Continue(())
                    } else {
                        ControlFlow::Break(id)
                    }
                })
            };
            let map = map_ctl;
            if with {
                Box::pin(async move { map(g.try_for_each_concurrent_control_mut_with(limit, opts, f).await) })
            } else {
                Box::pin(async move { map(g.try_for_each_concurrent_control_mut(limit, f).await) })
            }
        }
        (api, ..) => panic!("harness: unknown api {api}"),
    }
}

fn mk_stream(
    cfg: &RunCfg,
    g: *mut FnGraph<Node>,
    rx: Option<mpsc::Receiver<InterruptSignal>>,
    w: &W,
    run: usize,
) -> SStream {
    let g: &'static FnGraph<Node> = unsafe { &*g };
    let opts = mk_opts(cfg, rx, w, run);
    let plain_default = cfg.strategy == "none" && cfg.order == "fwd" && cfg.include;
    match (cfg.api.as_str(), cfg.with) {
        ("stream", false) if plain_default => Box::pin(g.stream().map(SItem::Item)),
        ("stream", _) => Box::pin(g.stream_with(opts).map(SItem::Item)),
        #[cfg(feature = "int")]
        ("stream_int", false) if plain_default => Box::pin(g.stream_interruptible().map(|po| match po {
            PollOutcome::NoInterrupt(r) => SItem::Item(r),
            PollOutcome::Interrupted(r) => SItem::Interrupted(r),
        })),
        #[cfg(feature = "int")]
        ("stream_int", _) => Box::pin(g.stream_with_interruptible(opts).map(|po| match po {
            PollOutcome::NoInterrupt(r) => SItem::Item(r),
            PollOutcome::Interrupted(r) => SItem::Interrupted(r),
        })),
        (api, _) => panic!("harness: unknown stream api {api}"),
    }
}

#[derive(PartialEq, Clone, Copy, Debug)]
pub enum Status {
    NotCalled,
    Live,
    Returned,
    Aborted,
    Panicked,
}

enum Body {
    None,
    Call(CallFut),
    Stream(Option<SStream>),
}

pub struct Run {
    pub cfg: RunCfg,
    pub status: Status,
    body: Body,
    flag: Arc<FlagWaker>,
    /// Stream: the waker of a second consumer task; `last_w` = which task polled last.
    flag2: Arc<FlagWaker>,
    pub last_w: u8,
    pub switches: usize,
    tx: Option<mpsc::Sender<InterruptSignal>>,
    pub signalled: bool,
    /// signals sent from outside so far (a user may press Ctrl-C more than once)
    pub signals_sent: usize,
    /// Stream: FnRefs yielded and not yet dropped.
    held: BTreeMap<usize, FnRef<'static, Node>>,
    /// Stream: a poll is allowed without a wake-up (never polled, or the last poll returned an item).
    pub may_poll: bool,
    pub stream_ended: bool,
    pub stream_dropped: bool,
    pub fails_used: usize,
    pub spurious_used: usize,
    /// Stream: number of functions yielded so far.
    pub yielded: usize,
}

impl Run {
    /// Waker flag of the task that polled last (call futures: the only task).
    fn cur_flag(&self) -> &Arc<FlagWaker> {
        if self.last_w == 1 {
            &self.flag2
        } else {
            &self.flag
        }
    }
}

pub struct Exec {
    pub w: W,
    pub g: *mut FnGraph<Node>,
    pub runs: Vec<Run>,
    pub dead: bool,
    /// polls happen inside a tokio runtime (cooperative budget in force)
    pub tokio: bool,
    /// a stream poll returned Pending or the stream ended: the consumer task yields here
    pub stream_yield: bool,
    /// tokio mode: budget units to spend at the start of the i-th task poll (cyclic)
    pub burn: Vec<u32>,
    pub task_polls: usize,
    /// threaded scenarios: this executor drives only this run (0-based); the others live on other threads
    pub only: Option<usize>,
    /// FnRefs are dropped on another thread
    pub xdrop: bool,
    /// the interruptibility state shared by the `share` runs of this history (leaked: lives as long as any run needs it),
    /// its sender, and whether a signal has been sent on it
    #[cfg(feature = "int")]
    shared_state: Option<*mut InterruptibilityState<'static, 'static>>,
    shared_tx: Option<mpsc::Sender<InterruptSignal>>,
    shared_signalled: bool,
}

thread_local! {
    static RT: tokio::runtime::Runtime = tokio::runtime::Builder::new_current_thread().build().expect("runtime");
    static BURN: std::cell::RefCell<(mpsc::Sender<()>, mpsc::Receiver<()>)> = std::cell::RefCell::new(mpsc::channel(1024));
}

/// Spends `units` of the current task's cooperative budget (one successful `poll_recv` each).
fn burn_budget(units: u32, cx: &mut Context<'_>) {
    BURN.with(|b| {
        let mut b = b.borrow_mut();
        for _ in 0..units {
            let _ = b.0.try_send(());
            match b.1.poll_recv(cx) {
                Poll::Ready(_) => {}
                Poll::Pending => {
                    // budget already exhausted: the message stays queued; drain it outside the budget
                    let _ = b.1.try_recv();
                    break;
                }
            }
        }
    });
}

/// Runs `f` as ONE poll of a tokio task (fresh cooperative budget), then lets the task yield once so that
/// wake-ups tokio deferred during the poll are delivered before we look at the waker flag.
pub fn in_task_poll<T>(burn: u32, f: impl FnOnce() -> T) -> T {
    RT.with(|rt| {
        let mut f = Some(f);
        let mut out: Option<T> = None;
        rt.block_on(std::future::poll_fn(|cx| {
            if let Some(f) = f.take() {
                if burn > 0 {
                    burn_budget(burn, cx);
                }
                out = Some(f());
                cx.waker().wake_by_ref();
                Poll::Pending
            } else {
                Poll::Ready(())
            }
        }));
        out.expect("polled")
    })
}

/// Without the `int` feature fn_graph has no interruptibility: every option set is reduced to its
/// order / limit / body, and `stream_interruptible` to `stream`.
fn normalise(cfg: &RunCfg) -> RunCfg {
    #[allow(unused_mut)]
    let mut c = cfg.clone();
    #[cfg(not(feature = "int"))]
    {
        c.strategy = "none".into();
        c.k = 0;
        c.include = true;
        c.pre_signal = false;
        c.tx_drop = false;
        c.sync_sig.clear();
        if c.api == "stream_int" {
            c.api = "stream".into();
        }
    }
    c
}

impl Exec {
    pub fn new(w: W, g: *mut FnGraph<Node>, cfgs: &[RunCfg]) -> Self {
        Exec {
            w,
            g,
            runs: cfgs
                .iter()
                .map(|cfg| Run {
                    cfg: normalise(cfg),
                    status: Status::NotCalled,
                    body: Body::None,
                    flag: FlagWaker::new(),
                    flag2: FlagWaker::new(),
                    last_w: 0,
                    switches: 0,
                    tx: None,
                    signalled: false,
                    signals_sent: 0,
                    held: BTreeMap::new(),
                    may_poll: false,
                    stream_ended: false,
                    stream_dropped: false,
                    fails_used: 0,
                    spurious_used: 0,
                    yielded: 0,
                })
                .collect(),
            dead: false,
            tokio: false,
            stream_yield: false,
            burn: Vec::new(),
            task_polls: 0,
            only: None,
            xdrop: false,
            #[cfg(feature = "int")]
            shared_state: None,
            shared_tx: None,
            shared_signalled: false,
        }
    }

    fn next_burn(&mut self) -> u32 {
        let i = self.task_polls;
        self.task_polls += 1;
        if self.burn.is_empty() {
            0
        } else {
            self.burn[i % self.burn.len()]
        }
    }

    pub fn is_stream_step(&self, st: &Step) -> bool {
        let run = match st {
            Step::Poll { run, .. } | Step::Drop { run, .. } | Step::DropStream { run } => *run,
            _ => return false,
        };
        run >= 1 && run <= self.runs.len() && self.runs[run - 1].cfg.is_stream()
    }

    /// Applies the steps; in tokio mode consecutive stream steps up to a Pending poll form one task poll.
    pub fn run_steps(&mut self, steps: &[Step]) {
        let mut i = 0;
        while i < steps.len() {
            if self.tokio && self.is_stream_step(&steps[i]) {
                let me: *mut Exec = self;
                let idx: *mut usize = &mut i;
                let burn = self.next_burn();
                in_task_poll(burn, || {
                    // SAFETY: single thread; `self` and `i` outlive this synchronous closure
                    let (me, i) = unsafe { (&mut *me, &mut *idx) };
                    me.stream_yield = false;
                    while *i < steps.len() && me.is_stream_step(&steps[*i]) && !me.stream_yield {
                        let ok = me.step(&steps[*i]);
                        *i += 1;
                        if !ok {
                            *i = steps.len();
                        }
                    }
                });
                // wake-ups that tokio deferred to the end of the task poll (budget exhausted) have been
                // delivered now: the waker flag of the Pending poll that ended the task poll is read here
                if self.stream_yield {
                    let flags: Vec<bool> = self.runs.iter().map(|r| r.cur_flag().get()).collect();
                    let mut world = self.w.borrow_mut();
                    if let Some(last) = world.log.iter_mut().rev().find(|v| v["ev"] == "spoll") {
                        if last["res"] == "pending" {
                            let r = last["run"].as_u64().unwrap_or(1) as usize;
                            last["woken"] = json!(flags[r - 1]);
                        }
                    }
                }
            } else {
                if !self.step(&steps[i]) {
                    break;
                }
                i += 1;
            }
        }
    }

    fn ev(&self, v: Value) {
        self.w.borrow_mut().ev(v);
    }

    fn any_live_other(&self, r: usize) -> bool {
        self.runs.iter().enumerate().any(|(i, run)| {
            i != r && (run.status == Status::Live || !run.held.is_empty())
        })
    }

    /// Applies one driver step; returns false (and logs `diverged`) if it is not executable.
    pub fn step(&mut self, st: &Step) -> bool {
        if self.dead {
            return false;
        }
        let ok = self.step_inner(st);
        if !ok {
            self.ev(json!({"ev":"diverged","step":serde_json::to_value(st).unwrap()}));
        }
        ok
    }

    fn step_inner(&mut self, st: &Step) -> bool {
        match *st {
            Step::Call { run } => {
                let r = run - 1;
                if r >= self.runs.len() || self.runs[r].status != Status::NotCalled {
                    return false;
                }
                let cfg = self.runs[r].cfg.clone();
                if cfg.mutv && self.any_live_other(r) {
                    return false;
                }
                if self.runs.iter().enumerate().any(|(i, o)| i != r && o.cfg.mutv && o.status == Status::Live) {
                    return false;
                }
                #[allow(unused_mut)]
                let mut cfg = cfg;
                #[allow(unused_mut, unused_assignments)]
                let mut shared_opts: Option<StreamOpts<'static, 'static>> = None;
                #[cfg(feature = "int")]
                if cfg.share && cfg.strategy == "finish" && !cfg.is_stream() {
                    if self.any_live_other(r) {
                        return false;
                    }
                    if self.shared_state.is_none() {
                        let (tx, rx) = mpsc::channel::<InterruptSignal>(16);
                        let st = Box::leak(Box::new(InterruptibilityState::new_finish_current(rx.into())));
                        self.shared_state = Some(st as *mut _);
                        self.shared_tx = Some(tx);
                    }
                    // the scenario asks for a signal that is pending when this call begins (the run re-executed alone,
                    // after a history in which an earlier run had been signalled): send it on the shared channel now
                    if cfg.pre_signal && !self.shared_signalled {
                        if let Some(tx) = self.shared_tx.as_ref() {
                            let _ = tx.try_send(InterruptSignal);
                        }
                        self.shared_signalled = true;
                    }
                    // what the call sees: a signal sent on the shared channel earlier is pending when it begins
                    cfg.pre_signal = self.shared_signalled;
                    cfg.tx_drop = false;
                    cfg.sync_sig.clear();
                    self.runs[r].cfg = cfg.clone();
                    self.runs[r].tx = self.shared_tx.clone();
                    self.runs[r].signalled = self.shared_signalled;
                    // SAFETY: the state is leaked, and sharing runs never overlap (checked above)
                    let st: &'static mut InterruptibilityState<'static, 'static> = unsafe { &mut *self.shared_state.unwrap() };
                    let mut o = StreamOpts::new();
                    if cfg.order == "rev" {
                        o = o.rev();
                    }
                    o = o.interruptibility_state(st.reborrow());
                    if !cfg.include {
                        o = o.interrupted_next_item_include(false);
                    }
                    shared_opts = Some(o);
                }
                let sharing = shared_opts.is_some();
                let rx = if sharing {
                    None
                } else if cfg.has_channel() {
                    let (tx, rx) = mpsc::channel::<InterruptSignal>(16);
                    if cfg.pre_signal {
                        tx.try_send(InterruptSignal).expect("pre signal");
                        self.runs[r].signalled = true;
                    }
                    if !(cfg.pre_signal && cfg.tx_drop) {
                        self.runs[r].tx = Some(tx);
                    }
                    Some(rx)
                } else {
                    None
                };
                self.ev(json!({"ev":"call","run":run,"api":cfg.api,"mut":cfg.mutv,"control":cfg.control,
                    "with":cfg.with,"order":cfg.order,"limit":cfg.limit,"strategy":cfg.strategy,"k":cfg.k,
                    "include":cfg.include,"pre_signal":cfg.pre_signal && cfg.has_channel(),"tx_drop":cfg.tx_drop,
                    "sync_ok":cfg.sync_ok,"sync_fail":cfg.sync_fail,"sync_sig":cfg.sync_sig}));
                {
                    let mut world = self.w.borrow_mut();
                    world.cur_run = run;
                    for &f in &cfg.sync_ok {
                        world.presync.insert((run, f), true);
                    }
                    for &f in &cfg.sync_fail {
                        world.presync.insert((run, f), false);
                    }
                    if let Some(tx) = self.runs[r].tx.as_ref() {
                        for &f in &cfg.sync_sig {
                            world.presync_sig.insert((run, f), tx.clone());
                        }
                    }
                    if !cfg.sync_sig.is_empty() {
                        // the run's one signal is the synchronous function's
                        self.runs[r].signalled = true;
                    }
                }
                if cfg.is_stream() {
                    let g = self.g;
                    let w = self.w.clone();
                    match catch_unwind(AssertUnwindSafe(|| mk_stream(&cfg, g, rx, &w, run))) {
                        Ok(s) => {
                            self.runs[r].body = Body::Stream(Some(s));
                            self.runs[r].status = Status::Live;
                            self.runs[r].may_poll = true;
                            self.w.borrow_mut().drain_hooks();
                        }
                        Err(p) => self.panicked(r, p),
                    }
                } else {
                    let g = self.g;
                    let w = self.w.clone();
                    match catch_unwind(AssertUnwindSafe(|| mk_call(&cfg, run, g, &w, rx, shared_opts))) {
                        Ok(f) => {
                            self.runs[r].body = Body::Call(f);
                            self.runs[r].status = Status::Live;
                            self.poll_call(r, false);
                            self.settle();
                        }
                        Err(p) => self.panicked(r, p),
                    }
                }
                true
            }
            Step::Open { run, f, ok, defer, signal } => {
                let r = run - 1;
                if r >= self.runs.len() || self.runs[r].status != Status::Live {
                    return false;
                }
                let sig_tx = if signal { self.runs[r].tx.clone() } else { None };
                if signal && sig_tx.is_none() {
                    return false;
                }
                if !gate_open(&self.w, run, f, ok, sig_tx) {
                    return false;
                }
                if signal {
                    self.runs[r].signalled = true;
                    if self.runs[r].cfg.share {
                        self.shared_signalled = true;
                    }
                }
                if !ok {
                    self.runs[r].fails_used += 1;
                }
                if !defer {
                    self.settle();
                }
                true
            }
            Step::Signal { run, defer } => {
                let r = run - 1;
                if r >= self.runs.len() || self.runs[r].status != Status::Live {
                    return false;
                }
                match self.runs[r].tx.as_ref() {
                    Some(tx) => {
                        let sent = tx.try_send(InterruptSignal).is_ok();
                        self.runs[r].signalled = true;
                        self.runs[r].signals_sent += 1;
                        if self.runs[r].cfg.share {
                            self.shared_signalled = true;
                        }
                        self.ev(json!({"ev":"signal","run":run,"sent":sent}));
                        if self.runs[r].cfg.tx_drop {
                            self.runs[r].tx = None;
                        }
                        if !defer {
                            self.settle();
                        }
                        true
                    }
                    None => false,
                }
            }
            Step::Poll { run, w } => {
                let r = run - 1;
                if r >= self.runs.len() || self.runs[r].status != Status::Live {
                    return false;
                }
                if self.runs[r].cfg.is_stream() {
                    if self.runs[r].stream_dropped {
                        return false;
                    }
                    self.poll_stream(r, w);
                } else {
                    let spurious = !self.runs[r].flag.get();
                    if spurious {
                        self.runs[r].spurious_used += 1;
                    }
                    self.poll_call(r, spurious);
                    self.settle();
                }
                true
            }
            Step::Drop { run, f } => {
                let r = run - 1;
                if r >= self.runs.len() {
                    return false;
                }
                match self.runs[r].held.remove(&f) {
                    Some(fn_ref) => {
                        self.w.borrow_mut().cur_run = run;
                        let res = if self.xdrop {
                            std::thread::scope(|sc| sc.spawn(move || drop(fn_ref)).join())
                        } else {
                            catch_unwind(AssertUnwindSafe(move || drop(fn_ref)))
                        };
                        let woken = self.runs[r].cur_flag().get();
                        self.ev(json!({"ev":"drop_ref","run":run,"f":f,"woken":woken}));
                        if let Err(p) = res {
                            self.panicked(r, p);
                        }
                        true
                    }
                    None => false,
                }
            }
            Step::DropStream { run } => {
                let r = run - 1;
                if r >= self.runs.len() || self.runs[r].stream_dropped {
                    return false;
                }
                if let Body::Stream(s) = &mut self.runs[r].body {
                    let s = s.take();
                    self.w.borrow_mut().cur_run = run;
                    let res = catch_unwind(AssertUnwindSafe(move || drop(s)));
                    self.runs[r].stream_dropped = true;
                    if self.runs[r].status == Status::Live {
                        self.runs[r].status = Status::Aborted;
                    }
                    self.ev(json!({"ev":"drop_stream","run":run}));
                    if let Err(p) = res {
                        self.panicked(r, p);
                    }
                    true
                } else {
                    false
                }
            }
            Step::Abort { run } => {
                let r = run - 1;
                if r >= self.runs.len() || self.runs[r].status != Status::Live {
                    return false;
                }
                if let Body::Call(_) = &self.runs[r].body {
                    self.w.borrow_mut().cur_run = run;
                    self.ev(json!({"ev":"abort","run":run}));
                    let body = std::mem::replace(&mut self.runs[r].body, Body::None);
                    let res = catch_unwind(AssertUnwindSafe(move || drop(body)));
                    self.runs[r].status = Status::Aborted;
                    self.w.borrow_mut().drain_hooks();
                    if let Err(p) = res {
                        self.panicked(r, p);
                    }
                    true
                } else {
                    false
                }
            }
        }
    }

    fn panicked(&mut self, r: usize, p: Box<dyn std::any::Any + Send>) {
        self.ev(json!({"ev":"panic","run":r+1,"msg":panic_msg(p)}));
        self.runs[r].status = Status::Panicked;
        // Whatever state the code under test is in now is not trusted: leak it.
        let body = std::mem::replace(&mut self.runs[r].body, Body::None);
        std::mem::forget(body);
        let held = std::mem::take(&mut self.runs[r].held);
        std::mem::forget(held);
        self.dead = true;
    }

    /// Polls every live call future whose waker flag is set, until all are
    /// quiescent (Pending and not woken) or finished.
    fn settle(&mut self) {
        loop {
            let mut progressed = false;
            for r in 0..self.runs.len() {
                if self.dead {
                    return;
                }
                if self.runs[r].status == Status::Live
                    && matches!(self.runs[r].body, Body::Call(_))
                    && self.runs[r].flag.get()
                {
                    self.poll_call(r, false);
                    progressed = true;
                }
            }
            if !progressed {
                return;
            }
        }
    }

    fn poll_call(&mut self, r: usize, spurious: bool) {
        let run = r + 1;
        let flag = self.runs[r].flag.clone();
        flag.take();
        let waker = Waker::from(flag.clone());
        let mut cx = Context::from_waker(&waker);
        self.w.borrow_mut().cur_run = run;
        let tokio = self.tokio;
        let burn = if tokio { self.next_burn() } else { 0 };
        let res = match &mut self.runs[r].body {
            Body::Call(f) => {
                if tokio {
                    in_task_poll(burn, || catch_unwind(AssertUnwindSafe(|| f.as_mut().poll(&mut cx))))
                } else {
                    catch_unwind(AssertUnwindSafe(|| f.as_mut().poll(&mut cx)))
                }
            }
            _ => return,
        };
        match res {
            Ok(Poll::Pending) => {
                let inflight = self.w.borrow().inflight(run);
                self.ev(json!({"ev":"poll","run":run,"res":"pending","woken":flag.get(),
                    "spurious":spurious,"inflight":inflight}));
            }
            Ok(Poll::Ready(ret)) => {
                self.ev(json!({"ev":"poll","run":run,"res":"ready","woken":flag.get(),
                    "spurious":spurious,"inflight":self.w.borrow().inflight(run)}));
                self.ev(ret.to_event(run));
                self.runs[r].status = Status::Returned;
                let body = std::mem::replace(&mut self.runs[r].body, Body::None);
                if let Err(p) = catch_unwind(AssertUnwindSafe(move || drop(body))) {
                    self.panicked(r, p);
                }
            }
            Err(p) => self.panicked(r, p),
        }
    }

    fn poll_stream(&mut self, r: usize, w: u8) {
        let run = r + 1;
        if self.runs[r].last_w != w {
            self.runs[r].switches += 1;
        }
        self.runs[r].last_w = w;
        let flag = self.runs[r].cur_flag().clone();
        let was_woken = flag.take();
        let spurious = !was_woken && !self.runs[r].may_poll;
        let waker = Waker::from(flag.clone());
        let mut cx = Context::from_waker(&waker);
        self.w.borrow_mut().cur_run = run;
        let res = match &mut self.runs[r].body {
            Body::Stream(Some(s)) => catch_unwind(AssertUnwindSafe(|| s.as_mut().poll_next(&mut cx))),
            _ => return,
        };
        let held: Vec<usize> = self.runs[r].held.keys().copied().collect();
        match res {
            Ok(Poll::Pending) => {
                self.runs[r].may_poll = false;
                self.stream_yield = true;
                self.ev(json!({"ev":"spoll","run":run,"res":"pending","f":0,"interrupted":false,
                    "woken":flag.get(),"spurious":spurious,"held":held,"w":w}));
            }
            Ok(Poll::Ready(None)) => {
                self.runs[r].may_poll = false;
                self.runs[r].stream_ended = true;
                self.stream_yield = true;
                self.runs[r].status = Status::Returned;
                self.ev(json!({"ev":"spoll","run":run,"res":"none","f":0,"interrupted":false,
                    "woken":flag.get(),"spurious":spurious,"held":held,"w":w}));
            }
            Ok(Poll::Ready(Some(item))) => {
                self.runs[r].may_poll = true;
                let (fn_ref, interrupted) = match item {
                    SItem::Item(fr) => (Some(fr), false),
                    SItem::Interrupted(fr) => (fr, true),
                };
                let f = fn_ref.as_ref().map(|fr| fr.id).unwrap_or(0);
                self.ev(json!({"ev":"spoll","run":run,"res":"item","f":f,"interrupted":interrupted,
                    "woken":flag.get(),"spurious":spurious,"held":held,"w":w}));
                if let Some(fr) = fn_ref {
                    self.runs[r].yielded += 1;
                    if let Some(old) = self.runs[r].held.insert(f, fr) {
                        // double hand-out: keep the older one alive, the monitor has seen the event
                        std::mem::forget(old);
                    }
                }
            }
            Err(p) => self.panicked(r, p),
        }
    }

    /// Driver choices enabled now (for the explorers).
    pub fn enabled(&self, x: &ExploreOpts) -> Vec<Step> {
        let mut out = Vec::new();
        if self.dead {
            return out;
        }
        let world = self.w.borrow();
        let mut next_call: Option<usize> = None;
        for (r, run) in self.runs.iter().enumerate() {
            if self.only.is_some_and(|o| o != r) {
                continue;
            }
            let id = r + 1;
            let late_ok = x.late == 0 || world.ended_count(id) + run.yielded >= x.late;
            match run.status {
                Status::NotCalled => {
                    if next_call.is_none() {
                        next_call = Some(r);
                    }
                }
                Status::Live => {
                    if run.cfg.is_stream() {
                        let pollable = !run.stream_dropped && (run.may_poll || run.cur_flag().get());
                        let style_ok = match x.stream_style {
                            1 => run.held.is_empty(),
                            2 => run.may_poll || run.held.is_empty(),
                            _ => true,
                        };
                        if pollable && style_ok {
                            out.push(Step::Poll { run: id, w: run.last_w });
                        }
                        if x.spurious_polls && !run.stream_dropped && !(run.may_poll || run.cur_flag().get()) {
                            out.push(Step::Poll { run: id, w: run.last_w });
                        }
                        // another task takes over the stream: it polls with its own waker, woken or not
                        if x.multi_waker && !run.stream_dropped && run.switches < 3 {
                            out.push(Step::Poll { run: id, w: 1 - run.last_w });
                        }
                        if x.drop_stream && !run.stream_dropped {
                            out.push(Step::DropStream { run: id });
                        }
                    } else {
                        let openable = world.openable(id);
                        let many = openable.len() > 1;
                        let can_signal = x.signal_inside && x.signals && run.tx.is_some() && !run.signalled && late_ok;
                        for f in openable {
                            out.push(Step::Open { run: id, f, ok: true, defer: false, signal: false });
                            if run.cfg.is_try() && run.fails_used < x.max_fail && late_ok {
                                out.push(Step::Open { run: id, f, ok: false, defer: false, signal: false });
                            }
                            if can_signal {
                                out.push(Step::Open { run: id, f, ok: true, defer: false, signal: true });
                            }
                            if x.defer && many {
                                out.push(Step::Open { run: id, f, ok: true, defer: true, signal: false });
                                if run.cfg.is_try() && run.fails_used < x.max_fail && late_ok {
                                    out.push(Step::Open { run: id, f, ok: false, defer: true, signal: false });
                                }
                            }
                        }
                        // a deferred step left the flag set: a poll is due
                        if run.flag.get() {
                            out.push(Step::Poll { run: id, w: 0 });
                        } else if x.spurious_polls && run.spurious_used < 2 {
                            // the task is polled although nothing woke it (a join! / select! sibling did)
                            out.push(Step::Poll { run: id, w: 0 });
                        }
                        if x.aborts {
                            out.push(Step::Abort { run: id });
                        }
                    }
                    let again = run.signalled && run.signals_sent >= 1 && run.signals_sent < x.max_signals && !run.cfg.tx_drop;
                    if run.tx.is_some() && (!run.signalled || again) && x.signals && late_ok {
                        out.push(Step::Signal { run: id, defer: false });
                    }
                }
                _ => {}
            }
            // batching consumer: keeps everything it is handed while the stream still yields
            let hold = x.stream_style == 2 && run.status == Status::Live && !run.stream_dropped && run.may_poll;
            if !hold {
                for &f in run.held.keys() {
                    out.push(Step::Drop { run: id, f });
                }
            }
        }
        if let Some(r) = next_call {
            let others_live = self.any_live_other(r);
            let mut_conflict = self.runs[r].cfg.mutv && others_live
                || self.runs.iter().any(|o| o.cfg.mutv && o.status == Status::Live);
            if !mut_conflict && (x.overlap || !others_live) {
                out.push(Step::Call { run: r + 1 });
            }
        }
        out
    }

    /// Drops everything still alive (end of scenario), catching panics.
    pub fn finish(&mut self) {
        for r in 0..self.runs.len() {
            if self.dead {
                break;
            }
            let run = r + 1;
            self.w.borrow_mut().cur_run = run;
            if self.runs[r].status == Status::Live {
                if let Body::Call(_) = &self.runs[r].body {
                    self.ev(json!({"ev":"end_of_scenario","run":run,"live":true}));
                }
            }
            let body = std::mem::replace(&mut self.runs[r].body, Body::None);
            let held = std::mem::take(&mut self.runs[r].held);
            let res = catch_unwind(AssertUnwindSafe(move || {
                drop(held);
                drop(body);
            }));
            self.w.borrow_mut().drain_hooks();
            if let Err(p) = res {
                self.panicked(r, p);
            }
        }
        // Suppress `cancel` noise after the scenario is over: the log is taken before this.
    }
}

#[derive(Clone, Debug)]
pub struct ExploreOpts {
    pub max_fail: usize,
    pub signals: bool,
    pub aborts: bool,
    pub overlap: bool,
    pub drop_stream: bool,
    pub spurious_polls: bool,
    pub defer: bool,
    /// a completing function may send the interrupt itself (signal arrives in the middle of a poll)
    pub signal_inside: bool,
    /// random walks prefer failing completions
    pub fail_bias: bool,
    /// stream consumer: 0 = any interleaving; 1 = sequential (drop each FnRef before polling again);
    /// 2 = batching (poll until Pending, then drop everything held, then poll again)
    pub stream_style: u8,
    /// stream consumers: a second task (own waker) may take over polling at any time
    pub multi_waker: bool,
    /// failing completions and signals are offered only once this many functions of the run have returned
    pub late: usize,
    /// how many times the interrupt signal may be sent from outside (repeated Ctrl-C)
    pub max_signals: usize,
}

impl Default for ExploreOpts {
    fn default() -> Self {
        ExploreOpts {
            max_fail: 0,
            signals: true,
            aborts: false,
            overlap: false,
            drop_stream: false,
            spurious_polls: false,
            defer: false,
            signal_inside: false,
            fail_bias: false,
            stream_style: 0,
            multi_waker: false,
            late: 0,
            max_signals: 1,
        }
    }
}
